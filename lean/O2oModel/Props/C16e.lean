/-
C16, continued: when does `derive` panic at all?

After the repairs (the last two: the variant's own `#[type_hint]` in `validate_parent_attrs`, and `validate_variant_arm`
for the former `todo!()` of `render_enum_line`) four sites are left, the `unreachable!`s of the member lines (`6`, `8`,
`18`, `19`). This file proves that they are reached only through a *collision of names*: a plain member (or a nested
field of a `#[parent(..)]` list) whose group key matches a level of the child path of another member or ghost, so that
it is drawn into that nested struct and rendered in a shape validation never looked at. For every input without such a
collision `derive` never panics (`C16_derive_never_panics_without_collision`); with one, only at these four sites
(`C16_derive_panics_only_with_collision`). `noKeyCollision` is a decidable test the driver evaluates on every parsed
input of the correspondence run (`FLAG id COLLISION`): the class of the four listed findings is "site + flag".
-/
import O2oModel.Props.C16d
import O2oModel.Props.C05
namespace O2o

/-! ### when a line stops at one of the four sites -/

/-- what a positional member needs when its line is written in struct shape -/
def PlainOK (f : Field) (ctx : ImplContext) : Prop :=
  fieldSkipped ctx f = false → ∀ n, f.member = .unnamed n →
    (f.attrs.applicableAttr ctx.kind ctx.fallible ctx.ty = none → f.attrs.hasParentAttr ctx.ty = true) ∧
    (∀ c, f.attrs.applicableAttr ctx.kind ctx.fallible ctx.ty = some (.field c) → ctx.kind.isFrom = false → c.member.isSome = true)

/-- what a positional nested field of a `#[parent(..)]` list needs when its line is written in struct shape -/
def PcOK (pc : ParentChildField) (k : Kind) : Prop :=
  ∀ n, pc.thisMember = .unnamed n → ∃ a, pc.getForKind k = some a ∧ a.thatMember.isSome = true

theorem getIdent_np_plain (ctx : ImplContext) (f : Field) (attr : ApplicableAttr) (n : Nat) (hs : fieldSkipped ctx f = false)
    (hm : f.member = .unnamed n)
    (hattr : f.attrs.applicableAttr ctx.kind ctx.fallible ctx.ty = some attr)
    (hcls : ctx.kind.cls = .into ∨ ctx.kind.cls = .existing) (hok : PlainOK f ctx) :
    NP "expand.rs:ApplicableAttr::get_ident:unreachable(8)" attr.getIdent := by
  cases attr with
  | parentChildField p k => exact absurd hattr (applicableAttr_not_pc _ _ _ _ p k)
  | ghost g => exact absurd hattr (C16_member_not_ghost ctx f (cls_not_from _ hcls) hs g)
  | field c =>
    have := (hok hs n hm).2 c hattr (cls_not_from _ hcls)
    simp only [ApplicableAttr.getIdent]
    split
    · exact NP.ok _ _
    · rename_i hnone; simp [hnone] at this

/-- a member line written under a hint that is not `Struct`, or for a member that meets `PlainOK`, stops at neither
    `unreachable!("6")` nor `unreachable!("8")` -/
theorem structLine_np_ok (s : String) (hs6 : s ∈ ["expand.rs:render_struct_line:unreachable(6)", "expand.rs:ApplicableAttr::get_ident:unreachable(8)"])
    (f : Field) (ctx : ImplContext) (hint : TypeHint) (idx : Nat)
    (hs : fieldSkipped ctx f = false) (hok : hint = .struct → PlainOK f ctx) :
    NP s (renderStructLine f ctx hint idx none) := by
  simp only [List.mem_cons, List.mem_nil_iff, or_false] at hs6
  rcases hs6 with rfl | rfl
  · unfold renderStructLine
    simp only []
    repeat' (first
      | exact getActionOr_np _ _ _ _ _
      | exact getIdent_np_ctx _ (by decide) ctx f _ hs ‹_› (by first | exact Or.inl ‹_› | exact Or.inr ‹_›)
      | exact getFieldNameOr_np_ctx _ ctx f _ _ hs ‹_› (by first | exact Or.inl ‹_› | exact Or.inr ‹_›)
      | exact getStuff_np_ctx _ ctx f _ hs ‹_› ‹_› _ _ _
      | exact absurd ((hok rfl hs _ ‹_›).1 ‹_›) ‹_›
      | np_step)
  · unfold renderStructLine
    simp only []
    repeat' (first
      | exact getActionOr_np _ _ _ _ _
      | exact getIdent_np_plain ctx f _ _ hs ‹_› ‹_› (by first | exact Or.inl ‹_› | exact Or.inr ‹_›) (hok rfl)
      | exact getFieldNameOr_np_ctx _ ctx f _ _ hs ‹_› (by first | exact Or.inl ‹_› | exact Or.inr ‹_›)
      | exact getStuff_np_ctx _ ctx f _ hs ‹_› ‹_› _ _ _
      | np_step)

theorem getIdent_np_pc_ok (s : String) (p : ParentChildField) (k : Kind) (attr : ApplicableAttr) (n : Nat)
    (ha : some (ApplicableAttr.parentChildField p k) = some attr) (hm : p.thisMember = .unnamed n) (hok : PcOK p k) :
    NP s attr.getIdent := by
  cases ha
  obtain ⟨a, hget, hthat⟩ := hok n hm
  simp only [ApplicableAttr.getIdent, hget]
  split
  · exact NP.ok _ _
  · rename_i hnone; simp [hnone] at hthat

/-- the line of a nested field of a `#[parent(..)]` list, written under a hint that is not `Struct`, in a From
    conversion, or for a field that meets `PcOK`, stops at neither `unreachable!("18")` nor `unreachable!("19")` -/
theorem parentLine_np_ok (s : String) (f : Field) (ctx : ImplContext) (hint : TypeHint) (idx : Nat) (pc : ParentChildField)
    (hok : hint = .struct → ctx.kind.isFrom = false → PcOK pc ctx.kind) :
    NP s (renderStructLine f ctx hint idx (some pc)) := by
  by_cases hl : s = "expand.rs:ApplicableAttr::get_ident:unreachable(18)" ∨ s = "expand.rs:ApplicableAttr::get_ident:unreachable(19)"
  · unfold renderStructLine
    simp only []
    repeat' (first
      | exact getActionOr_np _ _ _ _ _
      | exact getIdent_np_pc_ok _ pc ctx.kind _ _ ‹_› ‹_› (hok rfl (cls_not_from _ (by first | exact Or.inl ‹_› | exact Or.inr ‹_›)))
      | exact getFieldNameOr_np_pc _ pc ctx.kind _ _ ‹_›
      | exact getStuff_np_pc _ pc ctx.kind _ _ _ _ _ ‹_›
      | exact absurd ‹some (ApplicableAttr.parentChildField pc ctx.kind) = none› (by simp)
      | np_step)
  · intro h
    exact hl (C16_parent_line_panics f ctx hint idx pc s h)

/-! ### the descent, with the member lines closed -/

/-- the sites of the descent itself (everything of `coreSites` but the four line sites) -/
def descentSites : List String := coreSites.drop 4

theorem lineSites_not_descent (s : String) (hs : s ∈ lineSites) : ∀ site ∈ descentSites, site ≠ s := by
  simp only [lineSites, List.mem_cons, List.mem_nil_iff, or_false] at hs
  rcases hs with rfl | rfl | rfl | rfl <;> decide

/-- the `#[child_parents]` entry of a level key -/
def levelEntry (ctx : ImplContext) (key : String) : Option ChildParentData :=
  (ctx.input.attrs.childParentsAttr ctx.ty).bind fun x => x.childParents.find? (fun cd => cd.fieldPathStr == key)

/-- the level being rendered is written in the counterpart's own shape, or — in an Into / IntoExisting conversion — it is
    a level of one of the listed child paths, written in the shape its `#[child_parents]` entry gives -/
def LevelOK (ctx : ImplContext) (L : List ChildPath) (fctx : FieldCtx) : Prop :=
  hintOf ctx fctx = ctx.structAttr.typeHint ∨
  (ctx.kind.isFrom = false ∧ ∃ cp crc d key cd, fctx = some (cp, some crc, d) ∧ cp ∈ L ∧ cp.strs[d]? = some key ∧
    levelEntry ctx key = some cd ∧ crc.typeHint = cd.typeHint)

/-- what the descent relies on for one entry of the grouped member list, to keep the member lines off the four sites -/
def GoodW (ctx : ImplContext) (L : List ChildPath) (fc : FieldContainer) : Prop :=
  (∀ cp, containerPath ctx fc = some cp → cp ∈ L) ∧
  match fc.fieldData with
  | .field f =>
    (ctx.structAttr.typeHint = .struct → PlainOK f ctx) ∧
    match f.attrs.child ctx.ty with
    | none => ctx.kind.isFrom = false → ∀ cp ∈ L, ∀ key ∈ cp.strs, pathMatches fc.path key = false
    | some ca =>
      (∀ cd, levelEntry ctx (ca.childPath.strs.getLast?.getD "") = some cd → cd.typeHint = .struct → PlainOK f ctx) ∧
      (ctx.kind.isFrom = false → ∀ cp ∈ L, ∀ d key, cp.strs[d]? = some key → pathMatches fc.path key = true →
        ¬ d < ca.childPath.strs.length - 1 → key = ca.childPath.strs.getLast?.getD "")
  | .ghostData _ => True
  | .parentChildField _ pc =>
    (∀ th, parentChildHint ctx ctx.structAttr.typeHint = .ok th → th = .struct → ctx.kind.isFrom = false → PcOK pc ctx.kind) ∧
    (ctx.kind.isFrom = false → ∀ cp ∈ L, ∀ key ∈ cp.strs, pathMatches fc.path key = false)

theorem levelBreak_post (fctx : FieldCtx) (path : String) :
    Post (fun brk => brk = false → ∀ cp crc d, fctx = some (cp, crc, d) → ∃ key, cp.strs[d]? = some key ∧ pathMatches path key = true)
      (levelBreak fctx path) := by
  unfold levelBreak
  split
  · rename_i cp crc d
    unfold ChildPath.getStr
    simp only
    split
    · rename_i key hkey
      refine Post.ok _ _ ?_
      intro hb cp' crc' d' h
      cases h
      exact ⟨key, hkey, by simpa using hb⟩
    · exact Post.error _ _
  · refine Post.pure _ _ ?_
    intro _ cp crc d h
    cases h

theorem getStr_post_at (cp : ChildPath) (d : Nat) : Post (fun key => cp.strs[d]? = some key) (cp.getStr (some d)) := by
  unfold ChildPath.getStr
  simp only
  split
  · rename_i k hk
    exact Post.ok _ _ hk
  · exact Post.error _ _

theorem childLineHint_eq (ctx : ImplContext) (ca : ChildAttr) (th : TypeHint) :
    childLineHint ctx ca th =
      if ctx.kind.isFrom then (match levelEntry ctx (ca.childPath.strs.getLast?.getD "") with | some cd => cd.typeHint | none => th) else th := by
  unfold childLineHint levelEntry
  split
  · cases h : ctx.input.attrs.childParentsAttr ctx.ty with
    | none => simp
    | some cpa =>
      simp only [Option.bind_some]
      cases hf : cpa.childParents.find? (fun cd => cd.fieldPathStr == ca.childPath.strs.getLast?.getD "") <;> simp_all
  · simp

section
variable (s : String) (hB : ∀ site ∈ descentSites, site ≠ s)
include hB

theorem wrapInit_np_d (ctx : ImplContext) (hint : TypeHint) (n : Bool) (fr : TS) : NP s (wrapInit ctx hint n fr) := by
  unfold wrapInit
  repeat' (first | exact NP.panicAt _ _ (hB _ (by decide)) | np_step)

theorem levelBreak_np_d (fc : FieldCtx) (p : String) : NP s (levelBreak fc p) := by
  unfold levelBreak
  repeat' (first | exact getStr_np _ (hB _ (by decide)) _ _ | np_step)

theorem structGhostLines_np_d (ctx : ImplContext) (fc : FieldCtx) (hok : GhostsOK s ctx.input.attrs.ghostsAttrs) :
    NP s (structGhostLines ctx fc) := by
  have hix : "attr.rs:ChildPath::get_child_path_str:index" ≠ s := hB _ (by decide)
  unfold structGhostLines
  split
  · rename_i hk
    have hk' : ctx.kind.isFrom = false := by simpa using hk
    split
    · rename_i ga hga
      obtain ⟨x, hx, rfl⟩ := ghostsAttr_mem _ _ _ _ hga
      apply NP.foldlM_mem
      intro acc g hg
      have hid := hok x hx g hg
      split
      · apply NP.bind
        · unfold GhostData.getChildPathStr
          split
          · exact getStr_none_np _ _
          · exact NP.ok _ _
        · intro a
          apply NP.bind _ _ _ (getStr_np _ hix _ _)
          intro b
          split
          · exact NP.bind _ _ _ (renderGhostLine_np_of _ _ _ hid hk') (fun _ => NP.pure _ _)
          · exact NP.pure _ _
      · exact NP.bind _ _ _ (renderGhostLine_np_of _ _ _ hid hk') (fun _ => NP.pure _ _)
      · exact NP.pure _ _
    · exact NP.pure _ _
  · exact NP.pure _ _

variable (ctx : ImplContext) (L : List ChildPath) (hok : CtxOK s ctx)
include hok

def BodyW (fuel : Nat) : Prop :=
  (∀ members named fctx, (∀ fc ∈ members, GoodW ctx L fc) → LevelOK ctx L fctx →
      NP s (structInitBlockInner fuel members named ctx fctx)) ∧
  (∀ members named fctx th frags idx, (∀ fc ∈ members, GoodW ctx L fc) → LevelOK ctx L fctx → th = hintOf ctx fctx →
      NP s (structInitLoop fuel members named ctx fctx th frags idx)) ∧
  (∀ cp fields depth th line, (∀ fc ∈ fields, GoodW ctx L fc) → cp ∈ L →
      ((ctx.kind.cls = .from_ ∨ deeperThan depth (cp.strs.length - 1) = false) → NP s (line ())) →
      NP s (renderChildFragment fuel cp fields ctx depth th line)) ∧
  (∀ field pc fields named depth lh idx, (∀ fc ∈ fields, GoodW ctx L fc) →
      (lh = .struct → ctx.kind.isFrom = false → PcOK pc ctx.kind) →
      NP s (renderParentChildFragment fuel field pc fields named ctx depth lh idx)) ∧
  (∀ cd fields named cp depth hint, (∀ fc ∈ fields, GoodW ctx L fc) → LevelOK ctx L (some (cp, some cd, depth)) →
      NP s (renderChild fuel cd fields named ctx cp depth hint)) ∧
  (∀ fields named cp depth, (∀ fc ∈ fields, GoodW ctx L fc) → cp ∈ L → ctx.kind.isFrom = false →
      NP s (renderExistingChild fuel fields named ctx cp depth))

theorem body_w : ∀ fuel, BodyW s ctx L fuel := by
  intro fuel
  induction fuel with
  | zero =>
    refine ⟨?_, ?_, ?_, ?_, ?_, ?_⟩
    · intros; unfold structInitBlockInner; exact NP.error_unsupported _ _
    · intros; unfold structInitLoop; exact NP.error_unsupported _ _
    · intros; unfold renderChildFragment; exact NP.error_unsupported _ _
    · intros; unfold renderParentChildFragment; exact NP.error_unsupported _ _
    · intros; unfold renderChild; exact NP.error_unsupported _ _
    · intros; unfold renderExistingChild; exact NP.error_unsupported _ _
  | succ fuel ih =>
    obtain ⟨ihInner, ihLoop, ihCF, ihPCF, ihChild, ihEx⟩ := ih
    obtain ⟨sufInner, sufLoop, sufCF, sufPCF, sufChild, sufEx⟩ := suf_all fuel
    have hs68 : ∀ f hint idx, fieldSkipped ctx f = false → (hint = .struct → PlainOK f ctx) → NP s (renderStructLine f ctx hint idx none) := by
      intro f hint idx hsk hpo
      by_cases h68 : s ∈ ["expand.rs:render_struct_line:unreachable(6)", "expand.rs:ApplicableAttr::get_ident:unreachable(8)"]
      · exact structLine_np_ok s h68 f ctx hint idx hsk hpo
      · intro h
        rcases C16_struct_line_panics f ctx hint idx s hsk h with h | h <;> exact h68 (by simp [h])
    refine ⟨?_, ?_, ?_, ?_, ?_, ?_⟩
    · intro members named fctx hgood hlev
      unfold structInitBlockInner
      simp only []
      refine NP.bind _ _ _ (ihLoop _ _ _ _ _ _ hgood hlev ?_) (fun _ => ?_)
      · rcases fctx with _ | ⟨cp, _ | crc, d⟩ <;> rfl
      refine NP.bind _ _ _ (structGhostLines_np_d s hB _ _ hok.2) (fun _ => ?_)
      exact NP.bind _ _ _ (wrapInit_np_d s hB _ _ _ _) (fun _ => NP.pure _ _)
    · intro members named fctx th frags idx hgood hlev hth
      unfold structInitLoop
      cases members with
      | nil => exact NP.ok _ _
      | cons fc rest =>
        simp only []
        refine NP.bind_post _ _ _ _ (levelBreak_np_d s hB _ _) (levelBreak_post _ _) (fun brk hbrk => ?_)
        have hfcg : GoodW ctx L fc := hgood fc List.mem_cons_self
        have hrestg : ∀ x ∈ rest, GoodW ctx L x := fun x hx => hgood x (List.mem_cons_of_mem _ hx)
        have hsufg : ∀ l : List FieldContainer, l <:+ (fc :: rest) → ∀ x ∈ l, GoodW ctx L x :=
          fun l hl x hx => hgood x (hl.subset hx)
        split
        · exact NP.pure _ _
        · rename_i hnb
          have hbrk' := hbrk (by simpa using hnb)
          -- a member that is not under a level of a listed path is rendered in the counterpart's own shape
          have htop : (ctx.kind.isFrom = false → ∀ cp ∈ L, ∀ key ∈ cp.strs, pathMatches fc.path key = false) →
              th = ctx.structAttr.typeHint := by
            intro hnc
            rcases hlev with hl | ⟨hnf, cp, crc, d, key, cd, hf, hcp, hkey, _, _⟩
            · rw [hth, hl]
            · obtain ⟨key', hk', hm⟩ := hbrk' cp (some crc) d hf
              rw [hkey] at hk'
              cases hk'
              have := hnc hnf cp hcp key (List.mem_of_getElem? hkey)
              rw [this] at hm
              cases hm
          split
          · -- a member
            rename_i f hfd
            split
            · exact ihLoop _ _ _ _ _ _ hrestg hlev hth
            · rename_i hskip
              have hskip' : fieldSkipped ctx f = false := by simpa using hskip
              have hg := hfcg
              simp only [GoodW, hfd] at hg
              obtain ⟨hpath, htopok, hrest⟩ := hg
              split
              · rename_i ca hca
                simp only [hca] at hrest
                obtain ⟨hown, hsep⟩ := hrest
                have hcpL : ca.childPath ∈ L := hpath _ (by simp [containerPath, hfd, hca])
                refine NP.bind_post _ _ _ _ (ihCF _ _ _ _ _ hgood hcpL ?_)
                  (sufCF _ _ _ _ _ _) (fun a ha => ihLoop _ _ _ _ _ _ (hsufg _ ha) hlev hth)
                intro hcond
                apply hs68 _ _ _ hskip'
                rw [childLineHint_eq]
                intro hstruct
                by_cases hfrom : ctx.kind.isFrom = true
                · simp only [hfrom, if_true] at hstruct
                  cases hle : levelEntry ctx (ca.childPath.strs.getLast?.getD "") with
                  | some cd => simp only [hle] at hstruct; exact hown cd hle hstruct
                  | none =>
                    simp only [hle] at hstruct
                    -- a From conversion renders every level in the counterpart's own shape
                    rcases hlev with hl | ⟨hnf, _⟩
                    · exact htopok (by rw [← hl, ← hth]; exact hstruct)
                    · rw [hfrom] at hnf; cases hnf
                · have hnf : ctx.kind.isFrom = false := by simpa using hfrom
                  simp only [hnf, Bool.false_eq_true, if_false] at hstruct
                  rcases hlev with hl | ⟨_, cp, crc, d, key, cd, hf, hcp, hkey, hent, hcrc⟩
                  · exact htopok (by rw [← hl, ← hth]; exact hstruct)
                  · -- the line is written at the level the member's own path ends at
                    have hnd : deeperThan (Option.map (fun x => x.2.2) fctx) (ca.childPath.strs.length - 1) = false := by
                      rcases hcond with hc | hc
                      · have := cls_from _ hc; rw [hnf] at this; cases this
                      · exact hc
                    obtain ⟨key', hk', hm⟩ := hbrk' cp (some crc) d hf
                    rw [hkey] at hk'
                    cases hk'
                    have hdn : ¬ d < ca.childPath.strs.length - 1 := by
                      simpa [hf, deeperThan] using hnd
                    have hkeq := hsep hnf cp hcp d key hkey hm hdn
                    rw [hkeq] at hent
                    refine hown cd hent ?_
                    rw [← hcrc]
                    have : hintOf ctx fctx = crc.typeHint := by rw [hf]; rfl
                    rw [← this, ← hth]; exact hstruct
              · rename_i hca
                simp only [hca] at hrest
                refine NP.bind _ _ _ (hs68 _ _ _ hskip' ?_) (fun _ => ihLoop _ _ _ _ _ _ hrestg hlev hth)
                intro hstruct
                by_cases hfrom : ctx.kind.isFrom = true
                · rcases hlev with hl | ⟨hnf, _⟩
                  · exact htopok (by rw [← hl, ← hth]; exact hstruct)
                  · rw [hfrom] at hnf; cases hnf
                · exact htopok (by rw [← htop (fun _ => hrest (by simpa using hfrom))]; exact hstruct)
          · -- a struct-level ghost entry
            rename_i g hfd
            split
            · exact NP.panicAt _ _ (hB _ (by decide))
            · rename_i cp hcp
              have hcpL : cp ∈ L := hfcg.1 _ (by simp [containerPath, hfd, hcp])
              refine NP.bind_post _ _ _ _ (ihCF _ _ _ _ _ hgood hcpL (fun _ => NP.ok _ _))
                (sufCF _ _ _ _ _ _) (fun a ha => ihLoop _ _ _ _ _ _ (hsufg _ ha) hlev hth)
          · -- a nested member of a #[parent(..)] list
            rename_i f pc hfd
            have hg := hfcg
            simp only [GoodW, hfd] at hg
            obtain ⟨_, hq1, hq2⟩ := hg
            apply NP.bind' _ _ _ (parentChildHint_np s _ _ hok.1)
            intro th' hth'
            refine NP.bind_post _ _ _ _ (ihPCF _ _ _ _ _ _ _ hgood ?_)
              (sufPCF _ _ _ _ _ _ _ _) (fun a ha => ihLoop _ _ _ _ _ _ (hsufg _ ha) hlev hth)
            intro hstruct hnf
            have := htop (fun _ => hq2 hnf)
            rw [this] at hth'
            exact hq1 th' hth' hstruct hnf
    · intro cp fields depth th line hgood hcpL hline
      unfold renderChildFragment
      split
      · rename_i hdeep
        split
        · -- Into: the nested struct is built from its #[child_parents] entry
          rename_i hcls
          have hnf : ctx.kind.isFrom = false := cls_not_from _ (Or.inl hcls)
          split
          · exact NP.panicAt _ _ (hB _ (by decide))
          · rename_i cpa hcpa
            refine NP.bind_post _ _ _ _ (getStr_np _ (hB _ (by decide)) _ _) (getStr_post_at _ _) (fun key hkey => ?_)
            split
            · exact NP.panicAt _ _ (hB _ (by decide))
            · rename_i cd hcd
              refine NP.bind _ _ _ (namedFields_np s _ hok.1) (fun _ => ihChild _ _ _ _ _ _ hgood ?_)
              refine Or.inr ⟨hnf, cp, _, _, key, cd, rfl, hcpL, hkey, ?_, rfl⟩
              simp [levelEntry, hcpa, hcd]
        · rename_i hcls
          exact NP.bind _ _ _ (namedFields_np s _ hok.1) (fun _ => ihEx _ _ _ _ hgood hcpL (cls_not_from _ (Or.inr hcls)))
        · rename_i hcls
          exact NP.bind _ _ _ (hline (Or.inl hcls)) (fun _ => NP.pure _ _)
      · rename_i hnd
        exact NP.bind _ _ _ (hline (Or.inr (by simpa using hnd))) (fun _ => NP.pure _ _)
    · intro field pc fields named depth lh idx hgood hpc
      unfold renderParentChildFragment
      split
      · rename_i hcond
        simp only [Bool.and_eq_true] at hcond
        refine NP.bind _ _ _ ?_ (fun _ => NP.bind _ _ _ (namedFields_np s _ hok.1) (fun _ => ihChild _ _ _ _ _ _ hgood (Or.inl rfl)))
        split
        · rename_i d
          split
          · exact NP.pure _ _
          · exact NP.panicAt _ _ (hB _ (by decide))
          · rename_i hnone
            have hd : d < pc.subPath.length := by simpa [deeperThan] using hcond.1
            simp [List.getElem?_eq_getElem hd] at hnone
        · split
          · exact NP.pure _ _
          · exact NP.panicAt _ _ (hB _ (by decide))
      · exact NP.bind _ _ _ (parentLine_np_ok s _ _ _ _ _ hpc) (fun _ => NP.ok _ _)
    · intro cd fields named cp depth hint hgood hlev
      unfold renderChild
      simp only []
      refine NP.bind _ _ _ ?_ (fun _ => ?_)
      · split
        · exact NP.pure _ _
        · exact NP.panicAt _ _ (hB _ (by decide))
      · refine NP.bind _ _ _ (ihInner _ _ _ hgood hlev) (fun _ => ?_)
        refine NP.bind _ _ _ (namedFields_np s _ hok.1) (fun _ => ?_)
        split <;> first | exact NP.pure _ _ | exact NP.panicAt _ _ (hB _ (by decide))
    · intro fields named cp depth hgood hcpL hnf
      unfold renderExistingChild
      refine NP.bind_post _ _ _ _ (getStr_np _ (hB _ (by decide)) _ _) (getStr_post_at _ _) (fun key hkey => ihInner _ _ _ hgood ?_)
      cases hle : levelEntry ctx key with
      | none =>
        left
        simp only [levelEntry] at hle
        simp [hintOf, hle]
      | some cd =>
        right
        refine ⟨hnf, cp, { ty := cd.ty, typeHint := cd.typeHint }, _, key, cd, ?_, hcpL, hkey, hle, rfl⟩
        simp only [levelEntry] at hle
        simp [hle]

end

/-! ### what validation establishes -/

theorem applicableAttr_of_ghost_none (a : MemberAttrs) (k : Kind) (f : Bool) (ty : TypePath) (hg : a.ghost ty k = none) :
    a.applicableAttr k f ty = (a.applicableFieldAttr k f ty).map (fun x => ApplicableAttr.field x.attr) :=
  (C05_three_views_agree a k f ty hg).symm

theorem ghost_none_of_attr (a : MemberAttrs) (k : Kind) (f : Bool) (ty : TypePath)
    (h : ∀ g, a.applicableAttr k f ty ≠ some (.ghost g)) : a.ghost ty k = none := by
  cases hg : a.ghost ty k with
  | none => rfl
  | some g => exact absurd ((applicableAttr_ghost_iff a k f ty g).mpr hg) (h g)

/-- the per-member check of the two "tuple struct written `as {}`" rules: a member that passes it meets `PlainOK` -/
theorem plainOK_of_check (f : Field) (ctx : ImplContext) (msg : String)
    (h : ∀ m, (∀ es, m ∈ memberNameCheck f ctx.ty ctx.kind ctx.fallible msg es) → False) : PlainOK f ctx := by
  intro hskip n _
  refine ⟨?_, ?_⟩
  · intro hnone
    cases hp : f.attrs.hasParentAttr ctx.ty with
    | true => rfl
    | false =>
      exfalso
      have hg : f.attrs.ghost ctx.ty ctx.kind = none := ghost_none_of_attr _ _ ctx.fallible _ (by rw [hnone]; intro g hg; cases hg)
      have hfa : f.attrs.applicableFieldAttr ctx.kind ctx.fallible ctx.ty = none := by
        have := applicableAttr_of_ghost_none f.attrs ctx.kind ctx.fallible ctx.ty hg
        rw [hnone] at this
        cases hx : f.attrs.applicableFieldAttr ctx.kind ctx.fallible ctx.ty with
        | none => rfl
        | some x => rw [hx] at this; cases this
      refine h msg (fun es => ?_)
      unfold memberNameCheck
      simp only [hg, hp, Option.isSome_none, Bool.or_self, Bool.false_eq_true, if_false, hfa]
      exact mem_insert_self _ _
  · intro c hc hnf
    cases hm : c.member with
    | some m => rfl
    | none =>
      exfalso
      have hsk : f.attrs.ghost ctx.ty ctx.kind = none ∧ f.attrs.hasParentAttr ctx.ty = false := by
        simp only [fieldSkipped, hnf, Bool.not_false, Bool.true_and, Bool.false_and, Bool.or_false, Bool.or_eq_false_iff] at hskip
        refine ⟨?_, hskip.2⟩
        cases hg : f.attrs.ghost ctx.ty ctx.kind with
        | none => rfl
        | some g => simp [hg] at hskip
      obtain ⟨hg, hp⟩ := hsk
      have := applicableAttr_of_ghost_none f.attrs ctx.kind ctx.fallible ctx.ty hg
      rw [hc] at this
      cases hx : f.attrs.applicableFieldAttr ctx.kind ctx.fallible ctx.ty with
      | none => rw [hx] at this; cases this
      | some fa =>
        rw [hx] at this
        have hfa : fa.attr = c := by simpa using this.symm
        refine h ("Member trait instruction #[" ++ fa.originalInstr ++ "(...)] for member " ++ f.member.str ++
          " should specify corresponding field name of the " ++ ctx.ty.pathStr) (fun es => ?_)
        unfold memberNameCheck
        simp only [hg, hp, Option.isSome_none, Bool.or_self, Bool.false_eq_true, if_false, hx, hnf, hfa, hm, Option.isNone_none, if_true]
        exact mem_insert_self _ _

/-- the diagnostic of `validate_fields`' name rule for a member without an instruction -/
def namePassMsg (field : Field) (dta : TraitAttrCore) (k : Kind) : String :=
  "Member " ++ field.member.str ++ " should have member trait instruction with field name" ++
    (if k.isFrom then " or an action" else "") ++ ", that corresponds to #[" ++ fallibleKindName k false ++
    "(" ++ dta.ty.pathStr ++ "...)] trait instruction"

/-- a message the name rule produces for one member of a tuple struct, under one trait instruction, is in `validate`'s
    result -/
theorem struct_nameCheck_reported (st : Struct) (hnamed : st.namedFields = false) (ta : TraitAttr) (k : Kind)
    (hta : (ta, k) ∈ traitAttrsByKind st.attrs) (hq : ta.core.quickReturn = none) (f : Field) (hf : f ∈ st.fields)
    (hcond : ta.core.typeHint = .struct ∨ nestedStructShaped st ta.core.ty f = true) (m : String)
    (hm : ∀ es, m ∈ memberNameCheck f ta.core.ty k ta.fallible (namePassMsg f ta.core k) es) : m ∈ validate (.struct st) := by
  unfold validate validateEnd
  simp only
  unfold validateFields
  simp only [hnamed, Bool.not_false, if_true]
  refine mem_foldl_of_step _ _ _ _ (ta, k) hta (fun x es hm' => ext_namePass st x.1.core x.2 x.1.fallible es _ hm') (fun es => ?_)
  unfold namePass
  simp only [hq, Option.isNone_none, if_true]
  refine mem_foldl_of_step _ _ _ _ f hf (fun y es hm' => ?_) (fun es => ?_)
  · split
    · exact hm'
    · exact ext_memberNameCheck _ _ _ _ _ _ _ hm'
  · have : (ta.core.typeHint != TypeHint.struct && !nestedStructShaped st ta.core.ty f) = false := by
      rcases hcond with h | h
      · simp [h]
      · simp [h]
    simp only [this, Bool.false_eq_true, if_false]
    exact hm es

theorem parentInForce_eq (pas : List ParentAttr) (ty : TypePath) :
    parentInForce pas ty = findDedicatedOrDefault pas (·.childFields.isSome) (·.containerTy) ty := by
  unfold parentInForce findDedicatedOrDefault
  congr 1

/-- the rule of fix 2814c57, reported: a positional nested field of the `#[parent(..)]` list in force without an
    instruction, of the conversion's kind, that names the counterpart's field -/
theorem validateParentAttrs_reports_name (named : Bool) (wa : List (TraitAttrCore × Kind × TypeHint)) (pas : List ParentAttr)
    (byKind : List (TraitAttrCore × Kind)) (es : Errors) (a : TraitAttrCore) (k : Kind) (th : TypeHint) (hx : (a, k, th) ∈ wa)
    (hk : k.isFrom = false) (hq : a.quickReturn = none)
    (hshape : (th == .struct || (th == .unspecified && named)) = true)
    (ps : List ParentChildField) (hps : (parentInForce pas a.ty).bind (·.childFields) = some ps) (pc : ParentChildField) (hpc : pc ∈ ps)
    (hbad : (!pc.namedFields && (match pc.getForKind k with | some x => x.thatMember.isNone | none => true)) = true) :
    nestedNameMsg pc a ∈ validateParentAttrs named wa pas byKind es := by
  unfold validateParentAttrs
  have hfirst : nestedNameMsg pc a ∈ (wa.filter fun x => !x.2.1.isFrom && x.1.quickReturn.isNone).foldl (nestedNamePass named pas) es := by
    have hmem : (a, k, th) ∈ wa.filter (fun (x : TraitAttrCore × Kind × TypeHint) => !x.2.1.isFrom && x.1.quickReturn.isNone) := by
      simp only [List.mem_filter]
      exact ⟨hx, by simp [hk, hq]⟩
    refine mem_foldl_of_step _ _ _ _ (a, k, th) hmem (fun y es hm => ext_nestedNamePass named pas y es _ hm) (fun es => ?_)
    simp only [nestedNamePass, hshape, hps]
    have hpcf : pc ∈ ps.filter (fun f => !f.namedFields && (match f.getForKind k with | some a => a.thatMember.isNone | none => true)) := by
      simp only [List.mem_filter]
      exact ⟨hpc, hbad⟩
    exact mem_foldl_of_step _ _ _ _ pc hpcf (fun y es hm => mem_insert_of_mem _ _ _ hm) (fun es => mem_insert_self _ _)
  refine mem_foldl_of_mem _ _ _ _ (fun pa es hm => ?_) hfirst
  simp only
  refine mem_foldl_of_mem _ _ _ _ (fun x es hm => ?_) ?_
  · split
    · refine mem_foldl_of_mem _ _ _ _ (fun f es hm => ?_) hm
      refine mem_foldl_of_mem _ _ _ _ (fun i es hm => ?_) hm
      split
      · exact mem_insert_of_mem _ _ _ hm
      · exact hm
    · exact hm
  · refine mem_foldl_of_mem _ _ _ _ (fun x es hm => ?_) hm
    split
    · refine mem_foldl_of_mem _ _ _ _ (fun f es hm => ?_) hm
      split
      · exact mem_insert_of_mem _ _ _ hm
      · exact hm
    · exact hm

/-- .. hence, where validation reports nothing, such a nested field meets `PcOK` -/
theorem pcOK_of_no_report (pc : ParentChildField) (k : Kind)
    (h : (!pc.namedFields && (match pc.getForKind k with | some x => x.thatMember.isNone | none => true)) = true → False) :
    PcOK pc k := by
  intro n hn
  have hnamed : pc.namedFields = false := by simp [ParentChildField.namedFields, hn, Member.isNamed]
  cases hg : pc.getForKind k with
  | none => exact absurd (by simp [hnamed, hg]) h
  | some a =>
    cases ht : a.thatMember with
    | none => exact absurd (by simp [hnamed, hg, ht]) h
    | some m => exact ⟨a, rfl, by simp [ht]⟩

/-- a conversion of `implContexts` is one of the (trait instruction, kind) pairs validation walks over, with the same
    fallibility -/
theorem implContexts_trait (input : DataType) (ctx : ImplContext) (hctx : ctx ∈ implContexts input) :
    ∃ ta, (ta, ctx.kind) ∈ traitAttrsByKind input.attrs ∧ ta.core = ctx.structAttr ∧ ta.fallible = ctx.fallible := by
  unfold implContexts at hctx
  simp only [List.mem_flatMap, List.mem_map] at hctx
  obtain ⟨⟨k, fl⟩, hkf, sa, hsa, rfl⟩ := hctx
  simp only [DataTypeAttrs.iterForKindCore, List.mem_map] at hsa
  obtain ⟨ta, hta, rfl⟩ := hsa
  have hfl : ta.fallible = fl := by
    simp only [DataTypeAttrs.iterForKind, List.mem_filter, Bool.and_eq_true, beq_iff_eq] at hta
    exact hta.2.1
  refine ⟨ta, ?_, rfl, hfl⟩
  have hk : k ∈ kindOrderInto := by
    simp only [implPasses, List.mem_cons, Prod.mk.injEq, List.mem_nil_iff, or_false] at hkf
    rcases hkf with ⟨rfl, _⟩ | ⟨rfl, _⟩ | ⟨rfl, _⟩ | ⟨rfl, _⟩ | ⟨rfl, _⟩ | ⟨rfl, _⟩ | ⟨rfl, _⟩ | ⟨rfl, _⟩ | ⟨rfl, _⟩ | ⟨rfl, _⟩ | ⟨rfl, _⟩ | ⟨rfl, _⟩ <;> decide
  unfold traitAttrsByKind
  cases fl with
  | false => exact List.mem_append_left _ (List.mem_flatMap.mpr ⟨k, hk, List.mem_map.mpr ⟨ta, hta, rfl⟩⟩)
  | true => exact List.mem_append_right _ (List.mem_flatMap.mpr ⟨k, hk, List.mem_map.mpr ⟨ta, hta, rfl⟩⟩)

/-- what a conversion context shares with the trait instruction it was made for (stable under `quote_trait`'s
    `has_post_init` switch) -/
def CtxOf (input : DataType) (ctx : ImplContext) : Prop :=
  ctx.input = input ∧ (ctx.structAttr, ctx.kind) ∈ attrsByKind input.attrs ∧
  ∃ ta, (ta, ctx.kind) ∈ traitAttrsByKind input.attrs ∧ ta.core = ctx.structAttr ∧ ta.fallible = ctx.fallible

theorem ctxOf_of_mem (input : DataType) (ctx : ImplContext) (hctx : ctx ∈ implContexts input) : CtxOf input ctx :=
  ⟨(implContexts_facts input ctx hctx).1, (implContexts_facts input ctx hctx).2, implContexts_trait input ctx hctx⟩

/-- a member of a struct that validation accepts meets `PlainOK` wherever its line can be written in struct shape: under
    an `as {}` counterpart, or flattened into a nested struct written `as {}` -/
theorem struct_plainOK (st : Struct) (hv : validate (.struct st) = []) (hshape : (DataType.struct st).shapeWF = true)
    (ctx : ImplContext) (hctx : CtxOf (.struct st) ctx) (hq : ctx.structAttr.quickReturn = none)
    (f : Field) (hf : f ∈ st.fields)
    (hcond : ctx.structAttr.typeHint = .struct ∨ nestedStructShaped st ctx.ty f = true) : PlainOK f ctx := by
  cases hn : st.namedFields with
  | true =>
    intro _ n hm
    simp only [DataType.shapeWF, hn, Bool.not_true, Bool.false_or, List.all_eq_true] at hshape
    have := hshape f hf
    simp [hm, Member.isNamed] at this
  | false =>
    obtain ⟨ta, hta, hcore, hfl⟩ := hctx.2.2
    apply plainOK_of_check f ctx (namePassMsg f ctx.structAttr ctx.kind)
    intro m hm
    have : m ∈ validate (.struct st) := by
      apply struct_nameCheck_reported st hn ta ctx.kind hta (by rw [hcore]; exact hq) f hf (by rw [hcore]; exact hcond) m
      intro es
      rw [hcore, hfl]
      exact hm es
    rw [hv] at this
    cases this

/-- a message `validate_parent_attrs` produces for a member of a struct is in `validate`'s result -/
theorem struct_parentAttrs_reported (st : Struct) (x : Field) (hx : x ∈ st.fields) (m : String)
    (hm : ∀ es, m ∈ validateParentAttrs st.namedFields ((attrsByKind st.attrs).map fun x => (x.1, x.2, x.1.typeHint)) x.attrs.parentAttrs (attrsByKind st.attrs) es) :
    m ∈ validate (.struct st) := by
  have hmember : DataTypeMember.field x ∈ (DataType.struct st).members := by
    simp only [DataType.members, List.mem_map]
    exact ⟨x, hx, rfl⟩
  unfold validate
  simp only
  apply ext_validateEnd
  refine mem_foldl_of_step _ _ _ _ (DataTypeMember.field x) hmember
    (fun y es hm => ext_validateMember _ _ _ _ y es _ hm) (fun es => ?_)
  unfold validateMember
  simp only
  apply ext_validateMemberErrorInstrs
  apply ext_parentTypePass
  exact hm _

theorem parentChildHint_struct (ctx : ImplContext) (st : Struct) (hin : ctx.input = .struct st) (hint th : TypeHint)
    (h : parentChildHint ctx hint = .ok th) (hs : th = .struct) :
    (hint == .struct || (hint == .unspecified && st.namedFields)) = true := by
  unfold parentChildHint at h
  cases hint <;> simp [hin, DataType.namedFields, bind, Except.bind, pure, Except.pure] at h <;> simp_all

theorem nestedStructShaped_of_entry (st : Struct) (ctx : ImplContext) (hin : ctx.input = .struct st) (f : Field) (ca : ChildAttr)
    (hca : f.attrs.child ctx.ty = some ca) (cd : ChildParentData)
    (hle : levelEntry ctx (ca.childPath.strs.getLast?.getD "") = some cd) (hs : cd.typeHint = .struct) :
    nestedStructShaped st ctx.ty f = true := by
  have hattrs : ctx.input.attrs = st.attrs := by rw [hin]; rfl
  unfold nestedStructShaped
  simp only [hca]
  unfold levelEntry at hle
  rw [hattrs] at hle
  simp [hle, hs]

/-- every entry of the grouped member list of a struct that validation accepts is good for the descent with the member
    lines closed, provided no names collide in this conversion -/
theorem goodW_struct (st : Struct) (hv : validate (.struct st) = []) (hshape : (DataType.struct st).shapeWF = true)
    (ctx : ImplContext) (hctx : CtxOf (.struct st) ctx) (hq : ctx.structAttr.quickReturn = none)
    (hnc : ctx.kind.isFrom = false → noCollisionAt st ctx = true)
    (fc : FieldContainer) (hfc : fc ∈ groupedMembers st ctx) :
    GoodW ctx ((groupedMembers st ctx).filterMap (containerPath ctx)) fc := by
  obtain ⟨hin, hby, _⟩ := hctx
  have hctx : CtxOf (.struct st) ctx := ⟨hin, hby, ‹_›⟩
  have hnc' : ctx.kind.isFrom = false → _ := fun h => by
    have := hnc h
    simp only [noCollisionAt, List.all_eq_true] at this
    exact this fc hfc
  refine ⟨fun cp hcp => List.mem_filterMap.mpr ⟨fc, hfc, hcp⟩, ?_⟩
  rcases groupedMembers_from st ctx fc hfc with ⟨x, hx, hfd⟩ | ⟨g, hg, hfd, hsome⟩ | ⟨x, hx, ps, pc, hps, hpc, hfd⟩
  · simp only [hfd]
    refine ⟨fun hs => struct_plainOK st hv hshape ctx hctx hq x hx (Or.inl hs), ?_⟩
    cases hca : x.attrs.child ctx.ty with
    | none =>
      simp only
      intro hnf cp hcp key hkey
      have := hnc' hnf
      simp only [hfd, hca, List.all_eq_true] at this
      simpa using this cp hcp key hkey
    | some ca =>
      simp only
      refine ⟨fun cd hle hs => struct_plainOK st hv hshape ctx hctx hq x hx
        (Or.inr (nestedStructShaped_of_entry st ctx hin x ca hca cd hle hs)), ?_⟩
      intro hnf cp hcp d key hkey hm hnd
      have := hnc' hnf
      simp only [hfd, hca, List.all_eq_true] at this
      have hd : d < cp.strs.length := by
        rcases Nat.lt_or_ge d cp.strs.length with h | h
        · exact h
        · rw [List.getElem?_eq_none h] at hkey; cases hkey
      have := this cp hcp d (List.mem_range.mpr hd)
      simp only [hkey, hm, Bool.not_true, Bool.false_or, Bool.or_eq_true, decide_eq_true_eq, beq_iff_eq] at this
      rcases this with h | h
      · exact absurd h hnd
      · exact h
  · simp only [hfd]
  · simp only [hfd]
    refine ⟨?_, ?_⟩
    · intro th hth hs hnf
      apply pcOK_of_no_report
      intro hbad
      have hshape' := parentChildHint_struct ctx st hin _ th hth hs
      have hps' : (parentInForce x.attrs.parentAttrs ctx.structAttr.ty).bind (·.childFields) = some ps := by
        rw [parentInForce_eq]; exact hps
      have : nestedNameMsg pc ctx.structAttr ∈ validate (.struct st) :=
        struct_parentAttrs_reported st x hx _ (fun es =>
          validateParentAttrs_reports_name _ _ _ _ es ctx.structAttr ctx.kind ctx.structAttr.typeHint
            (List.mem_map.mpr ⟨(ctx.structAttr, ctx.kind), hby, rfl⟩) hnf hq hshape' ps hps' pc hpc hbad)
      rw [hv] at this
      cases this
    · intro hnf cp hcp key hkey
      have := hnc' hnf
      simp only [hfd, List.all_eq_true] at this
      simpa using this cp hcp key hkey

/-! ### variants -/

/-- the diagnostic of `validate_variant_fields` for a payload member without an instruction -/
def variantNameMsg (v : Variant) (field : Field) (a : TraitAttr) (k : Kind) : String :=
  "Member " ++ field.member.str ++ " of a variant " ++ v.ident ++ " should have member trait instruction with field name" ++
    (if k.isFrom then " or an action" else "") ++ ", that corresponds to #[" ++ fallibleKindName k a.fallible ++
    "(" ++ a.core.ty.pathStr ++ "...)] trait instruction"

theorem variant_nameCheck_reported (e : Enum) (v : Variant) (hvm : v ∈ e.variants) (hnamed : v.namedFields = false)
    (ta : TraitAttr) (k : Kind) (hta : (ta, k) ∈ traitAttrsByKind e.attrs) (hq : ta.core.quickReturn = none)
    (hh : variantHintFor v ta.core = .struct) (f : Field) (hf : f ∈ v.fields) (m : String)
    (hm : ∀ es, m ∈ memberNameCheck f ta.core.ty k ta.fallible (variantNameMsg v f ta k) es) : m ∈ validate (.enum e) := by
  unfold validate validateEnd
  simp only
  refine mem_foldl_of_step _ _ _ _ v hvm (fun y es hm' => ext_validateVariantFields y _ es _ hm') (fun es => ?_)
  unfold validateVariantFields
  simp only [hnamed, Bool.not_false, if_true]
  refine mem_foldl_of_step _ _ _ _ (ta, k) hta (fun x es hm' => ext_variantNamePass v x.1 x.2 es _ hm') (fun es => ?_)
  unfold variantNamePass
  have hh' : ((v.attrs.typeHint ta.core.ty).map (·.typeHint)).getD .unspecified = .struct := hh
  simp only [hq, Option.isNone_none, hh', beq_self_eq_true, Bool.and_self, if_true]
  exact mem_foldl_of_step _ _ _ _ f hf (fun y es hm' => ext_memberNameCheck _ _ _ _ _ _ _ hm') (fun es => hm es)

/-- every entry of the grouped member list of a variant of an enum that validation accepts is good for the descent with
    the member lines closed (a variant has no nested structs: no names can collide) -/
theorem goodW_variant (e : Enum) (hv : validate (.enum e) = []) (hshape : (DataType.enum e).shapeWF = true)
    (v : Variant) (hvm : v ∈ e.variants) (nctx : ImplContext) (hin : nctx.input = .struct (variantStructOf v))
    (ta : TraitAttr) (hta : (ta, nctx.kind) ∈ traitAttrsByKind e.attrs) (hby : (ta.core, nctx.kind) ∈ attrsByKind e.attrs)
    (hfl : ta.fallible = nctx.fallible) (hty : nctx.ty = ta.core.ty) (hq : ta.core.quickReturn = none)
    (hhint : nctx.structAttr.typeHint = variantHintFor v ta.core) (hbody : variantHasBody v ta nctx.kind = true)
    (fc : FieldContainer) (hfc : fc ∈ groupedMembers (variantStructOf v) nctx) : GoodW nctx [] fc := by
  rcases groupedMembers_from _ nctx fc hfc with ⟨x, hx, hfd⟩ | ⟨g, hg, hfd, hsome⟩ | ⟨x, hx, ps, pc, hps, hpc, hfd⟩
  · have hx' : x ∈ v.fields := hx
    have hnone : x.attrs.child nctx.ty = none := by
      have := C16_variant_field_no_child e hv v hvm x hx'
      simp [MemberAttrs.child, findDedicatedOrDefault, this]
    refine ⟨?_, ?_⟩
    · intro cp hcp
      simp [containerPath, hfd, hnone] at hcp
    · simp only [hfd, hnone]
      refine ⟨?_, fun _ cp hcp => by cases hcp⟩
      intro hs
      cases hn : v.namedFields with
      | true =>
        intro _ n hm
        simp only [DataType.shapeWF, List.all_eq_true] at hshape
        have := hshape v hvm
        simp only [hn, Bool.not_true, Bool.false_or, List.all_eq_true] at this
        have := this x hx'
        simp [hm, Member.isNamed] at this
      | false =>
        apply plainOK_of_check x nctx (variantNameMsg v x ta nctx.kind)
        intro m hm
        have : m ∈ validate (.enum e) := by
          apply variant_nameCheck_reported e v hvm hn ta nctx.kind hta hq (by rw [← hhint]; exact hs) x hx' m
          intro es
          rw [← hty, hfl]
          exact hm es
        rw [hv] at this
        cases this
  · exfalso
    simp only [List.mem_flatMap, Option.mem_toList] at hg
    obtain ⟨ga, hga, hgm⟩ := hg
    obtain ⟨y, hym, rfl⟩ := ghostsAttr_mem _ _ _ _ hga
    have := C16_variant_ghost_no_child_path e hv v hvm y hym g hgm
    simp [this] at hsome
  · have hx' : x ∈ v.fields := hx
    refine ⟨?_, ?_⟩
    · intro cp hcp
      simp [containerPath, hfd] at hcp
    · simp only [hfd]
      refine ⟨?_, fun _ cp hcp => by cases hcp⟩
      intro th hth hs hnf
      apply pcOK_of_no_report
      intro hbad
      have hshape' := parentChildHint_struct nctx (variantStructOf v) hin _ th hth hs
      rw [hhint] at hshape'
      have hps' : (parentInForce x.attrs.parentAttrs ta.core.ty).bind (·.childFields) = some ps := by
        rw [parentInForce_eq, ← hty]; exact hps
      have : nestedNameMsg pc ta.core ∈ validate (.enum e) := by
        apply variant_field_pass_reported e v hvm x hx'
        intro es
        apply ext_parentTypePass
        refine validateParentAttrs_reports_name _ _ _ _ _ ta.core nctx.kind (variantHintFor v ta.core) ?_ hnf hq hshape' ps hps' pc hpc hbad
        exact List.mem_map.mpr ⟨(ta, nctx.kind), List.mem_filter.mpr ⟨hta, hbody⟩, rfl⟩
      rw [hv] at this
      cases this

/-! ### the expansion of a validated input without a collision of names -/

theorem ne_of_not_line (s : String) (hs : s ∈ lineSites) (site : String) (h : site ∉ lineSites) : site ≠ s :=
  fun e => h (e ▸ hs)

theorem structInitBlock_np_w (s : String) (hs : s ∈ lineSites) (input : Struct) (ctx : ImplContext)
    (hin : ctx.input.isEnum = false) (L : List ChildPath)
    (hgood : ∀ fc ∈ groupedMembers input ctx, GoodW ctx L fc) : NP s (structInitBlock input ctx) := by
  have hok : CtxOK s ctx := ⟨hin, ghostsOK_of_ne s (ne_of_not_line s hs _ (by decide)) _⟩
  unfold structInitBlock
  split
  · exact NP.pure _ _
  · exact NP.bind _ _ _ ((body_w s (lineSites_not_descent s hs) ctx L hok _).1 _ _ _ hgood (Or.inl rfl)) (fun _ => NP.pure _ _)

/-- .. and a struct body never reaches the `todo!()` of `render_enum_line` anyway -/
theorem structInitBlock_np_f (s : String) (hs : s ∈ findingSites) (input : Struct) (ctx : ImplContext)
    (hin : ctx.input.isEnum = false) (L : List ChildPath)
    (hgood : s ∈ lineSites → ∀ fc ∈ groupedMembers input ctx, GoodW ctx L fc) : NP s (structInitBlock input ctx) := by
  simp only [findingSites, List.mem_append, List.mem_cons, List.mem_nil_iff, or_false] at hs
  rcases hs with hs | rfl
  · exact structInitBlock_np_w s hs input ctx hin L (hgood hs)
  · exact structInitBlock_np_core _ (by decide) input ctx ⟨hin, ghostsOK_of_ne _ (by decide) _⟩

/-! #### the former `todo!()` of `render_enum_line` (fix: `validate_variant_arm`) -/

theorem variantContributes_eq (ctx : ImplContext) (v : Variant) : variantContributes ctx v = variantHasArm v ctx.ty ctx.kind := by
  unfold variantContributes variantHasArm ghostNoDefault
  cases hg : v.attrs.ghost ctx.ty ctx.kind with
  | none => simp
  | some g => cases hf : ctx.kind.isFrom <;> cases ha : g.action <;> simp

/-- what the last check of validation establishes: every variant that has an arm in a conversion has a combination of
    variant-level instruction, literal and pattern that `render_enum_line` can write -/
theorem ext_variantArmStep (v : Variant) (x : TraitAttr × Kind) : Ext (fun es => variantArmStep v es x) := by
  intro es m hm
  simp only [variantArmStep]
  repeat' split
  all_goals first | exact hm | exact mem_insert_of_mem _ _ _ hm

/-- a message the last check produces for one variant under one (trait instruction, kind) is in the result of the whole -/
theorem variantArm_reported (e : Enum) (hv : validate (.enum e) = []) (v : Variant) (hvm : v ∈ e.variants)
    (x : TraitAttr × Kind) (hx : x ∈ traitAttrsByKind e.attrs) (m : String) (hstep : ∀ es, m ∈ variantArmStep v es x) :
    m ∈ validateAll (.enum e) := by
  unfold validateAll
  simp only [hv]
  refine mem_foldl_of_step _ _ _ _ v hvm (fun y es hm => ?_) (fun es => ?_)
  · unfold variantArmPass
    exact mem_foldl_of_mem _ _ _ _ (fun z es hm => ext_variantArmStep y z es m hm) hm
  · unfold variantArmPass
    exact mem_foldl_of_step _ _ _ _ x hx (fun z es hm => ext_variantArmStep v z es m hm) hstep

theorem variantArm_supported (e : Enum) (hva : validateAll (.enum e) = []) (v : Variant) (hvm : v ∈ e.variants)
    (ta : TraitAttr) (k : Kind) (hta : (ta, k) ∈ traitAttrsByKind e.attrs) (hq : ta.core.quickReturn = none)
    (harm : variantHasArm v ta.core.ty k = true) :
    enumArmSupported (v.attrs.applicableAttr k ta.fallible ta.core.ty).isSome (v.attrs.lit ta.core.ty).isSome
      (v.attrs.pat ta.core.ty).isSome k = true := by
  cases hsup : enumArmSupported (v.attrs.applicableAttr k ta.fallible ta.core.ty).isSome (v.attrs.lit ta.core.ty).isSome
      (v.attrs.pat ta.core.ty).isSome k with
  | true => rfl
  | false =>
    exfalso
    have hv := validate_of_validateAll_nil _ hva
    cases hie : k.isIntoExisting with
    | true =>
      have : variantExistingMsg v ta k ∈ validateAll (.enum e) :=
        variantArm_reported e hv v hvm (ta, k) hta _ (fun es => by
          simp only [variantArmStep, hq, Option.isSome_none, harm, Bool.not_true, Bool.or_self, Bool.false_eq_true, if_false, hie, if_true]
          exact mem_insert_self _ _)
      rw [hva] at this
      cases this
    | false =>
      have : variantArmMsg v ta k ∈ validateAll (.enum e) :=
        variantArm_reported e hv v hvm (ta, k) hta _ (fun es => by
          simp only [variantArmStep, hq, Option.isSome_none, harm, Bool.not_true, Bool.or_self, Bool.false_eq_true, if_false, hie, hsup]
          exact mem_insert_self _ _)
      rw [hva] at this
      cases this

section
variable (s : String) (hs : s ∈ findingSites)
include hs

theorem renderEnumLine_w (e : Enum) (hva : validateAll (.enum e) = []) (hshape : (DataType.enum e).shapeWF = true)
    (v : Variant) (hvm : v ∈ e.variants) (ctx : ImplContext)
    (hc : CtxOf (.enum e) ctx) (hq : ctx.structAttr.quickReturn = none) (hcon : variantContributes ctx v = true) :
    NP s (renderEnumLine v ctx) := by
  have hv := validate_of_validateAll_nil _ hva
  obtain ⟨_, hby, ta, hta, hcore, hfl⟩ := hc
  have h16 : "attr.rs:GhostIdent::get_ident:unreachable(16)" ≠ s := by
    intro e; rw [← e] at hs; revert hs; decide
  have hok : GhostsOK s v.attrs.ghostsAttrs := ghostsOK_of_ne s h16 _
  have harm : variantHasArm v ta.core.ty ctx.kind = true := by
    rw [variantContributes_eq] at hcon; rw [hcore]; exact hcon
  have hsup := variantArm_supported e hva v hvm ta ctx.kind hta (by rw [hcore]; exact hq) harm
  rw [hcore, hfl] at hsup
  have hbody : ∀ nctx : ImplContext, nctx.input = .struct (variantStructOf v) → nctx.kind = ctx.kind → nctx.fallible = ctx.fallible →
      nctx.ty = ctx.ty → nctx.structAttr.typeHint = variantHintFor v ctx.structAttr →
      (match v.attrs.applicableAttr ctx.kind ctx.fallible ctx.ty with | some a => a.hasAction | none => false) = false →
      NP s (structInitBlock (variantStructOf v) nctx) := by
    intro nctx hin hk hf hty hh hna
    refine structInitBlock_np_f s hs _ nctx (by simp [DataType.isEnum, hin]) [] (fun _ fc hfc => ?_)
    refine goodW_variant e hv hshape v hvm nctx hin ta (by rw [hk]; exact hta) (by rw [hk, hcore]; exact hby)
      (by rw [hf]; exact hfl) (by rw [hty, hcore]; rfl) (by rw [hcore]; exact hq) (by rw [hh, hcore]) ?_ fc hfc
    have harm' : variantHasArm v ctx.ty ctx.kind = true := by rw [variantContributes_eq] at hcon; exact hcon
    simp only [variantHasBody, hk, hfl, hcore]
    have hty : ctx.structAttr.ty = ctx.ty := rfl
    rw [hty, harm']
    cases ha : v.attrs.applicableAttr ctx.kind ctx.fallible ctx.ty with
    | none => simp
    | some a => rw [ha] at hna; simp at hna ⊢; exact hna
  unfold renderEnumLine
  simp only []
  refine NP.bind _ _ _ ?_ (fun destr => NP.bind _ _ _ ?_ (fun init => ?_))
  · repeat' (first | exact variantDestructBlock_np s _ _ hok | np_step)
  · repeat' (first
      | (refine hbody _ rfl rfl rfl rfl ?_ ?_
         · show _ = ((v.attrs.typeHint ctx.ty).map (·.typeHint)).getD .unspecified; simp [*]
         · simp_all)
      | np_step)
  · split
    · exact NP.pure _ _
    · rename_i a hattr _ _ hcls
      have hfrom := cls_from _ hcls
      have hng : ∀ g, a ≠ .ghost g := fun g hg => C16_variant_not_ghost_from ctx v hfrom hcon g (hg ▸ hattr)
      refine NP.bind _ _ _ (getActionOr_np _ _ _ _ _) (fun _ => NP.bind _ _ _ ?_ (fun _ => NP.pure _ _))
      cases a with
      | ghost g => exact absurd rfl (hng g)
      | field c => simp only [ApplicableAttr.getFieldNameOr]; exact NP.ok _ _
      | parentChildField p k => exact absurd hattr (applicableAttr_not_pc _ _ _ _ p k)
    · rename_i a hattr _ _ hcls
      have hnf := cls_not_from _ (Or.inl hcls)
      refine NP.bind _ _ _ ?_ (fun _ => NP.pure _ _)
      apply getStuff_np_of
      intro g hg
      subst hg
      have hgl := (applicableAttr_ghost_iff _ _ _ _ g).mp hattr
      simp only [variantContributes, hnf, ghostNoDefault, hgl, Bool.false_and, Bool.not_false, Bool.true_and] at hcon
      simpa using hcon
    · exact NP.pure _ _
    · exact NP.pure _ _
    · exact NP.pure _ _
    · exact NP.bind _ _ _ (getActionOr_np _ _ _ _ _) (fun _ => NP.pure _ _)
    · -- the former `todo!()`: validation has checked that one of the seven forms applies
      exfalso
      rename_i h1 h2 h3 h4 h5 h6 h7
      cases hattr : v.attrs.applicableAttr ctx.kind ctx.fallible ctx.ty <;>
      cases hlit : v.attrs.lit ctx.ty <;> cases hpat : v.attrs.pat ctx.ty <;>
      cases hcls : ctx.kind.cls <;>
      first
        | exact h1 hattr hlit hpat
        | exact h2 _ hattr hlit hpat hcls
        | exact h3 _ hattr hlit hpat hcls
        | exact h4 _ hattr hlit hpat hcls
        | exact h5 _ hattr hlit hpat hcls
        | exact h6 _ hattr hlit hpat hcls
        | exact h7 _ _ hattr hlit hpat hcls
        | (have hty : ctx.structAttr.ty = ctx.ty := rfl
           rw [hty, hattr, hlit, hpat] at hsup
           simp only [enumArmSupported, Option.isSome_some, Option.isSome_none] at hsup
           first
             | cases hsup
             | (have := cls_from _ hcls; simp_all)
             | (have := cls_not_from _ (Or.inl hcls); simp_all)
             | (have := cls_not_from _ (Or.inr hcls); simp_all [Kind.cls]))

theorem enumInitBlock_w (e : Enum) (hva : validateAll (.enum e) = []) (hshape : (DataType.enum e).shapeWF = true) (ctx : ImplContext)
    (hc : CtxOf (.enum e) ctx) (hq : ctx.structAttr.quickReturn = none) : NP s (enumInitBlock e ctx) := by
  have hv := validate_of_validateAll_nil _ hva
  unfold enumInitBlock
  refine NP.bind _ _ _ ?_ (fun _ => NP.bind _ _ _ ?_ (fun _ => NP.pure _ _))
  · apply NP.foldlM_mem
    intro acc v hvm
    unfold enumArmStep
    split
    · rename_i hcon
      exact NP.bind _ _ _ (renderEnumLine_w s hs e hva hshape v hvm ctx hc hq hcon) (fun _ => NP.pure _ _)
    · exact NP.pure _ _
  · apply NP.foldlM_mem
    intro acc g hg
    refine NP.bind _ _ _ ?_ (fun _ => NP.pure _ _)
    unfold enumGhostData at hg
    split at hg
    · rename_i ga hga
      obtain ⟨x, hx, rfl⟩ := ghostsAttr_mem _ _ _ _ hga
      obtain ⟨ts, hts⟩ := C16_site_17_unreachable e hv x hx g hg ctx
      rw [hts]; exact NP.ok _ _
    · simp at hg

/-- the body of one conversion of a validated input in which no names collide -/
theorem body_of_validated_w (input : DataType) (hva : validateAll input = []) (hshape : input.shapeWF = true) (ctx : ImplContext)
    (hc : CtxOf input ctx) (hq : ctx.structAttr.quickReturn = none)
    (hnc : s ∈ lineSites → ∀ st, input = .struct st → ctx.kind.isFrom = false → noCollisionAt st ctx = true) :
    (∀ st, ctx.input = .struct st → NP s (structInitBlock st ctx)) ∧ (∀ e, ctx.input = .enum e → NP s (enumInitBlock e ctx)) := by
  have hv := validate_of_validateAll_nil _ hva
  have hin := hc.1
  refine ⟨?_, ?_⟩
  · intro st hst
    have hi : input = .struct st := by rw [← hin]; exact hst
    subst hi
    exact structInitBlock_np_f s hs st ctx (by simp [DataType.isEnum, hst]) _
      (fun hl fc hfc => goodW_struct st hv hshape ctx hc hq (hnc hl st rfl) fc hfc)
  · intro e he
    have hi : input = .enum e := by rw [← hin]; exact he
    subst hi
    exact enumInitBlock_w s hs e hva hshape ctx hc hq

theorem mainCodeBlock_w (input : DataType) (hva : validateAll input = []) (hshape : input.shapeWF = true) (ctx : ImplContext)
    (hc : CtxOf input ctx)
    (hnc : s ∈ lineSites → ∀ st, input = .struct st → ctx.kind.isFrom = false → noCollisionAt st ctx = true) : NP s (mainCodeBlock ctx) := by
  unfold mainCodeBlock
  split
  · exact NP.ok _ _
  · rename_i hq
    obtain ⟨hS, hE⟩ := body_of_validated_w s hs input hva hshape ctx hc hq hnc
    split
    · rename_i st hst
      unfold structMainCodeBlock
      refine NP.bind _ _ _ (hS st hst) (fun _ => ?_)
      split <;> exact NP.pure _ _
    · rename_i e he
      unfold enumMainCodeBlock
      refine NP.bind _ _ _ (hE e he) (fun _ => ?_)
      split <;> exact NP.pure _ _

theorem mainCodeBlockOk_w (input : DataType) (hva : validateAll input = []) (hshape : input.shapeWF = true) (ctx : ImplContext)
    (hc : CtxOf input ctx)
    (hnc : s ∈ lineSites → ∀ st, input = .struct st → ctx.kind.isFrom = false → noCollisionAt st ctx = true) : NP s (mainCodeBlockOk ctx) := by
  unfold mainCodeBlockOk
  split
  · exact NP.ok _ _
  · rename_i hq
    obtain ⟨hS, hE⟩ := body_of_validated_w s hs input hva hshape ctx hc hq hnc
    refine NP.bind _ _ _ ?_ (fun _ => by split <;> exact NP.pure _ _)
    split
    · rename_i st hst
      unfold structMainCodeBlock
      refine NP.bind _ _ _ (hS st hst) (fun _ => ?_)
      split <;> exact NP.pure _ _
    · rename_i e he
      unfold enumMainCodeBlock
      refine NP.bind _ _ _ (hE e he) (fun _ => ?_)
      split <;> exact NP.pure _ _

theorem quoteTrait_w (input : DataType) (hva : validateAll input = []) (hshape : input.shapeWF = true) (ctx : ImplContext)
    (hctx : ctx ∈ implContexts input)
    (hnc : s ∈ lineSites → ∀ st, input = .struct st → ctx.kind.isFrom = false → noCollisionAt st ctx = true) : NP s (quoteTrait input ctx) := by
  have hv := validate_of_validateAll_nil _ hva
  have hc := ctxOf_of_mem input ctx hctx
  have herr : ctx.fallible = true → NP s (errTyPath ctx) := by
    intro hf
    obtain ⟨ts, hts⟩ := C16_err_ty_sites_unreachable input ctx hv hctx hf
    rw [hts]; exact NP.ok _ _
  unfold quoteTrait
  simp only []
  refine NP.bind _ _ _ (postInitOf_v s input hv ctx) (fun pi => ?_)
  split <;>
    repeat' (first
      | exact mainCodeBlock_w s hs input hva hshape _ hc hnc
      | exact mainCodeBlockOk_w s hs input hva hshape _ hc hnc
      | exact herr (by assumption)
      | np_step)
end

/-- the expansion of a validated input, at one of the five former finding sites: the collision hypothesis is needed for
    the four line sites only -/
theorem dataTypeImpls_np_f (input : DataType) (hva : validateAll input = []) (hshape : input.shapeWF = true) (s : String)
    (hs : s ∈ findingSites) (hnc : s ∈ lineSites → input.noKeyCollision = true) : NP s (dataTypeImpls input) := by
  unfold dataTypeImpls
  refine mapM_np_mem s _ _ (fun ctx hctx => quoteTrait_w s hs input hva hshape ctx hctx ?_)
  intro hl st hst hnf
  subst hst
  have := hnc hl
  simp only [DataType.noKeyCollision, List.all_eq_true] at this
  simpa [hnf] using this ctx hctx

/-- **C16 (validated inputs): a panic of the expansion needs a collision of names, and is then at one of the four line
    sites.** For every parsed input that validation accepts, whose child paths are as the parser builds them and whose
    named-field containers carry named members: if generating the impls panics, then names collide in the input
    (`noKeyCollision = false`: a plain member, or a nested field of a `#[parent(..)]` list, has a key that matches a
    level of the child path of another member or ghost) and the site is one of the four `unreachable!`s of the member
    lines — `("6")`, `("8")`, `("18")`, `("19")`, the listed findings. The `todo!()` of `render_enum_line` is closed by
    validation (`validate_variant_arm`). -/
theorem C16_validated_only_line_sites (input : DataType) (hva : validateAll input = []) (hwf : input.pathsWF = true)
    (hshape : input.shapeWF = true) (s : String) (h : dataTypeImpls input = .error (.panic s)) :
    s ∈ lineSites ∧ input.noKeyCollision = false := by
  have hv := validate_of_validateAll_nil _ hva
  have hs := C16_validated_only_findings input hv hwf s h
  have hline : s ∈ lineSites := by
    have hs' := hs
    simp only [findingSites, List.mem_append, List.mem_cons, List.mem_nil_iff, or_false] at hs'
    rcases hs' with hl | rfl
    · exact hl
    · exact absurd h (dataTypeImpls_np_f input hva hshape _ hs (fun hl => absurd hl (by decide)))
  refine ⟨hline, ?_⟩
  cases hn : input.noKeyCollision with
  | false => rfl
  | true => exact absurd h (dataTypeImpls_np_f input hva hshape s hs (fun _ => hn))

/-- **C16 (validated inputs without a collision of names): the expansion never panics** — no `unwrap()`,
    `unreachable!`, `todo!()`, `panic!` or index out of range of `expand.rs`, `attr.rs` or `ast.rs` is reached. -/
theorem C16_validated_no_collision_never_panics (input : DataType) (hva : validateAll input = []) (hwf : input.pathsWF = true)
    (hshape : input.shapeWF = true) (hnc : input.noKeyCollision = true) (s : String) :
    dataTypeImpls input ≠ .error (.panic s) := by
  intro h
  have := (C16_validated_only_line_sites input hva hwf hshape s h).2
  rw [hnc] at this
  cases this

/-- what a panic of `derive` after a successful parse amounts to -/
theorem derive_panic_inv (b : Back) (node : RawInput) (input : DataType) (hp : parseInput b node = some input)
    (s : String) (h : derive b node = .panic s) : validateAll input = [] ∧ dataTypeImpls input = .error (.panic s) := by
  unfold derive at h
  unfold parseInput at hp
  cases hb : node.body with
  | union => simp [hb] at h
  | struct data =>
    simp only [hb] at h hp
    cases hs : Struct.fromSyn b node data with
    | error e => simp [hs] at hp
    | ok st =>
      simp only [hs, Option.some.injEq] at hp
      subst hp
      simp only [hs, Except.map] at h
      cases hv : validateAll (.struct st) with
      | cons m ms => simp [hv] at h
      | nil =>
        simp only [hv] at h
        cases hd : dataTypeImpls (.struct st) with
        | ok impls => simp [hd] at h
        | error e =>
          simp only [hd] at h
          cases e with
          | panic s' =>
            simp only [ofPErr, Outcome.panic.injEq] at h
            subst h
            exact ⟨rfl, rfl⟩
          | lib => simp [ofPErr] at h
          | o2o m => simp [ofPErr] at h
          | unsupported w => simp [ofPErr] at h
  | enum vs =>
    simp only [hb] at h hp
    cases hs : Enum.fromSyn b node vs with
    | error e => simp [hs] at hp
    | ok en =>
      simp only [hs, Option.some.injEq] at hp
      subst hp
      simp only [hs, Except.map] at h
      cases hv : validateAll (.enum en) with
      | cons m ms => simp [hv] at h
      | nil =>
        simp only [hv] at h
        cases hd : dataTypeImpls (.enum en) with
        | ok impls => simp [hd] at h
        | error e =>
          simp only [hd] at h
          cases e with
          | panic s' =>
            simp only [ofPErr, Outcome.panic.injEq] at h
            subst h
            exact ⟨rfl, rfl⟩
          | lib => simp [ofPErr] at h
          | o2o m => simp [ofPErr] at h
          | unsupported w => simp [ofPErr] at h

/-! ### the parser hands named members to named-field containers -/

theorem Field.fromSyn_named (b : Back) (idx : Nat) (node : RawField) (bark : Bool) (hn : node.name.isSome = true) :
    Post (fun f => f.member.isNamed = true) (Field.fromSyn b idx node bark) := by
  unfold Field.fromSyn
  refine Post.bind_any _ _ _ (fun a => Post.pure _ _ ?_)
  cases h : node.name with
  | none => simp [h] at hn
  | some n => simp [Member.isNamed]

theorem merge_member (f : Field) (m : MemberAttrs) : ({ f with attrs := f.attrs.merge m } : Field).member = f.member := rfl

theorem multipleFromSyn_named (b : Back) (bark : Bool) : ∀ (nodes : List RawField) (i : Nat) (ctx : Context) (acc : List Field),
    (∀ n ∈ nodes, n.name.isSome = true) → (∀ f ∈ acc, f.member.isNamed = true) →
    Post (fun r => ∀ f ∈ r.1, f.member.isNamed = true) (Field.multipleFromSyn b bark nodes i ctx acc) := by
  intro nodes
  induction nodes with
  | nil =>
    intro i ctx acc _ hacc
    unfold Field.multipleFromSyn
    exact Post.ok _ _ (fun f hf => hacc f (List.mem_reverse.mp hf))
  | cons node rest ih =>
    intro i ctx acc hn hacc
    unfold Field.multipleFromSyn
    refine Post.bind _ _ _ _ (Field.fromSyn_named b i node bark (hn node List.mem_cons_self)) (fun field hfield => ?_)
    have hrest : ∀ n ∈ rest, n.name.isSome = true := fun n h => hn n (List.mem_cons_of_mem _ h)
    have hacc' : ∀ f ∈ field :: acc, f.member.isNamed = true := by
      intro f hf
      rcases List.mem_cons.mp hf with rfl | hf
      · exact hfield
      · exact hacc f hf
    simp only []
    generalize (if field.attrs.stopRepeat = true then { ctx with fieldAttrsToRepeat := none } else ctx) = ctx1
    split
    · split
      · exact Post.error _ _
      · exact ih _ _ _ hrest hacc'
    · split
      · apply ih _ _ _ hrest
        intro f hf
        rcases List.mem_cons.mp hf with rfl | hf
        · exact hfield
        · exact hacc f hf
      · exact ih _ _ _ hrest hacc'

def Variant.shaped (v : Variant) : Prop := v.namedFields = true → ∀ f ∈ v.fields, f.member.isNamed = true

theorem Variant.fromSyn_shaped (b : Back) (ctx : Context) (v : RawVariant) (bark : Bool) (hv : v.fields.shapeWF = true) :
    Post (fun r => r.1.shaped) (Variant.fromSyn b ctx v bark) := by
  unfold Variant.fromSyn
  cases hk : (v.fields.kind == FieldsKind.named) with
  | false =>
    refine Post.bind_any _ _ _ (fun r => ?_)
    obtain ⟨fields, ctx'⟩ := r
    refine Post.bind_any _ _ _ (fun a => Post.pure _ _ ?_)
    intro hnamed
    simp at hnamed
  | true =>
    have hall : ∀ n ∈ v.fields.fields, n.name.isSome = true := by
      simp only [RawFields.shapeWF, Bool.or_eq_true, bne_iff_ne, ne_eq, List.all_eq_true] at hv
      rcases hv with h | h
      · exact absurd (by simpa using hk) h
      · exact h
    refine Post.bind _ _ _ _ (multipleFromSyn_named b bark _ 0 ctx [] hall (by simp)) (fun r hr => ?_)
    obtain ⟨fields, ctx'⟩ := r
    refine Post.bind_any _ _ _ (fun a => Post.pure _ _ ?_)
    intro _
    exact hr

theorem Variant.multipleFromSyn_shaped (b : Back) (bark : Bool) : ∀ (vs : List RawVariant) (ctx : Context) (acc : List Variant),
    (∀ v ∈ vs, v.fields.shapeWF = true) → (∀ v ∈ acc, v.shaped) →
    Post (fun l => ∀ v ∈ l, v.shaped) (Variant.multipleFromSyn b bark vs ctx acc) := by
  intro vs
  induction vs with
  | nil =>
    intro ctx acc _ hacc
    unfold Variant.multipleFromSyn
    exact Post.ok _ _ (fun v hv => hacc v (List.mem_reverse.mp hv))
  | cons rv rest ih =>
    intro ctx acc hvs hacc
    unfold Variant.multipleFromSyn
    refine Post.bind _ _ _ _ (Variant.fromSyn_shaped b ctx rv bark (hvs rv List.mem_cons_self)) (fun r hr => ?_)
    obtain ⟨variant, ctx'⟩ := r
    have hrest : ∀ v ∈ rest, v.fields.shapeWF = true := fun v h => hvs v (List.mem_cons_of_mem _ h)
    simp only []
    have hacc' : ∀ v ∈ variant :: acc, v.shaped := by
      intro v hv
      rcases List.mem_cons.mp hv with rfl | hv
      · exact hr
      · exact hacc v hv
    generalize (if variant.attrs.stopRepeat = true then { ctx' with variantAttrsToRepeat := none } else ctx') = ctx1
    split
    · split
      · exact Post.error _ _
      · exact ih _ _ hrest hacc'
    · split
      · apply ih _ _ hrest
        intro v hv
        rcases List.mem_cons.mp hv with rfl | hv
        · exact hr
        · exact hacc v hv
      · exact ih _ _ hrest hacc'

/-- the parser keeps what `syn` hands over: named-field containers carry named members -/
theorem parseInput_shapeWF (b : Back) (node : RawInput) (input : DataType) (h : parseInput b node = some input)
    (hraw : node.shapeWF = true) : input.shapeWF = true := by
  unfold parseInput at h
  unfold RawInput.shapeWF at hraw
  split at h
  · rename_i data hbody
    simp only [hbody] at hraw
    split at h
    · rename_i st hst
      cases h
      have : Post (fun (s : Struct) => (DataType.struct s).shapeWF = true) (Struct.fromSyn b node data) := by
        unfold Struct.fromSyn
        refine Post.bind_any _ _ _ (fun r => ?_)
        obtain ⟨attrs, bark⟩ := r
        cases hk : (data.kind == FieldsKind.named) with
        | false =>
          refine Post.bind_any _ _ _ (fun r2 => ?_)
          obtain ⟨fields, ctx⟩ := r2
          refine Post.pure _ _ ?_
          simp [DataType.shapeWF]
        | true =>
          have hall : ∀ n ∈ data.fields, n.name.isSome = true := by
            simp only [RawFields.shapeWF, Bool.or_eq_true, bne_iff_ne, ne_eq, List.all_eq_true] at hraw
            rcases hraw with h | h
            · exact absurd (by simpa using hk) h
            · exact h
          refine Post.bind _ _ _ _ (multipleFromSyn_named b bark _ 0 {} [] hall (by simp)) (fun r2 hr2 => ?_)
          obtain ⟨fields, ctx⟩ := r2
          refine Post.pure _ _ ?_
          simp only [DataType.shapeWF, Bool.not_true, Bool.false_or, List.all_eq_true]
          exact hr2
      exact this st hst
    · cases h
  · rename_i vs hbody
    simp only [hbody, List.all_eq_true] at hraw
    split at h
    · rename_i en hen
      cases h
      have : Post (fun (e : Enum) => (DataType.enum e).shapeWF = true) (Enum.fromSyn b node vs) := by
        unfold Enum.fromSyn
        refine Post.bind_any _ _ _ (fun r => ?_)
        obtain ⟨attrs, bark⟩ := r
        refine Post.bind _ _ _ _ (Variant.multipleFromSyn_shaped b bark vs {} [] hraw (by simp)) (fun variants hvs => ?_)
        refine Post.pure _ _ ?_
        simp only [DataType.shapeWF, List.all_eq_true]
        intro v hv
        have := hvs v hv
        cases hn : v.namedFields with
        | false => simp
        | true => simpa [hn, List.all_eq_true] using this hn
      exact this en hen
    · cases h
  · cases h

/-- **C16 (the derive as a whole).** When the attribute parser accepts an input whose named-field containers have named
    fields (`RawInput.shapeWF`: what `syn` hands over), then whatever `derive` does — report diagnostics, or expand — it
    panics only if names collide in the input, and then at one of the four `unreachable!`s of the member lines. -/
theorem C16_derive_panics_only_with_collision (b : Back) (node : RawInput) (input : DataType)
    (hp : parseInput b node = some input) (hraw : node.shapeWF = true)
    (s : String) (h : derive b node = .panic s) : s ∈ lineSites ∧ input.noKeyCollision = false := by
  obtain ⟨hva, hd⟩ := derive_panic_inv b node input hp s h
  exact C16_validated_only_line_sites input hva (parseInput_pathsWF b node input hp) (parseInput_shapeWF b node input hp hraw) s hd

/-- **C16 (the derive as a whole, inputs without a collision of names): `derive` never panics.** -/
theorem C16_derive_never_panics_without_collision (b : Back) (node : RawInput) (input : DataType)
    (hp : parseInput b node = some input) (hraw : node.shapeWF = true) (hnc : input.noKeyCollision = true)
    (s : String) : derive b node ≠ .panic s := by
  intro h
  have := (C16_derive_panics_only_with_collision b node input hp hraw s h).2
  rw [hnc] at this
  cases this

/-- non-vacuity: the flattened struct of `exFlatStruct` meets every hypothesis -/
example : validateAll exFlatStruct = [] ∧ exFlatStruct.pathsWF = true ∧ exFlatStruct.shapeWF = true ∧ exFlatStruct.noKeyCollision = true := by
  decide

/-! ### the other direction, on a witness: with a collision the site is reached -/

/-- `#[owned_into(A)] #[child_parents(1: P as {})] struct S(#[child(1)] #[map(x)] i32, i32);` as a parsed input: the plain
    member `1` has the key of the nested struct `1` -/
def exCollide : DataType :=
  let ta : TypePath := { path := [Tok.ident "A"], pathStr := "A", generics := none, namelessTuple := false }
  .struct {
    attrs := {
      attrs := [{ core := { ty := ta, errTy := none, typeHint := .unspecified }, fallible := false,
                  appl := [true, false, false, false, false, false] }],
      childParentsAttrs := [{ containerTy := none, childParents := [{ ty := [Tok.ident "P"], typeHint := .struct, fieldPath := [Member.unnamed 1], fieldPathStr := "1" }] }] },
    ident := "S", generics := [],
    fields := [
      { attrs := { childAttrs := [{ containerTy := none, childPath := ChildPath.ofMembers [Member.unnamed 1] }],
                   attrs := [{ attr := { containerTy := none, member := some (.named "x"), action := none }, fallible := false, originalInstr := "map",
                               appl := [true, true, true, true, true, true] }] },
        idx := 0, member := .unnamed 0, memberStr := "0", ty := none },
      { attrs := {}, idx := 1, member := .unnamed 1, memberStr := "1", ty := none }],
    namedFields := false, unit := false }

/-- the witness is accepted by validation, meets the two well-formedness hypotheses, has a collision of names — and
    its expansion stops at `unreachable!("6")` (the listed finding `C16-unreachable-6`; the same input panics in the real
    derive, `KNOWN_FINDINGS.json`) -/
example : validateAll exCollide = [] ∧ exCollide.pathsWF = true ∧ exCollide.shapeWF = true ∧ exCollide.noKeyCollision = false := by decide

example : (match dataTypeImpls exCollide with
    | .error (.panic s) => s == "expand.rs:render_struct_line:unreachable(6)"
    | _ => false) = true := by decide +kernel

/-! ### a corollary a user can read off the input: nothing is flattened, nothing can collide -/

/-- no member is flattened (`#[child(..)]`) and no struct-level ghost is addressed to a nested struct (`path@name`) -/
def DataType.noNesting (d : DataType) : Bool :=
  match d with
  | .struct s => s.fields.all (·.attrs.childAttrs.isEmpty) &&
      s.attrs.ghostsAttrs.all fun ga => ga.attr.ghostData.all (·.childPath.isNone)
  | .enum _ => true

theorem noKeyCollision_of_noNesting (d : DataType) (h : d.noNesting = true) : d.noKeyCollision = true := by
  cases d with
  | enum e => rfl
  | struct st =>
    simp only [DataType.noNesting, Bool.and_eq_true, List.all_eq_true] at h
    obtain ⟨hf, hg⟩ := h
    simp only [DataType.noKeyCollision, List.all_eq_true, Bool.or_eq_true]
    intro ctx _
    right
    have hL : (groupedMembers st ctx).filterMap (containerPath ctx) = [] := by
      rw [List.filterMap_eq_nil_iff]
      intro fc hfc
      rcases groupedMembers_from st ctx fc hfc with ⟨x, hx, hfd⟩ | ⟨g, hgm, hfd, hsome⟩ | ⟨x, hx, ps, pc, hps, hpc, hfd⟩
      · have hempty : x.attrs.childAttrs = [] := by simpa using hf x hx
        simp [containerPath, hfd, MemberAttrs.child, findDedicatedOrDefault, hempty]
      · exfalso
        simp only [List.mem_flatMap, Option.mem_toList] at hgm
        obtain ⟨ga, hga, hgd⟩ := hgm
        obtain ⟨y, hym, rfl⟩ := ghostsAttr_mem _ _ _ _ hga
        have := hg y hym g hgd
        cases hcp : g.childPath <;> simp_all
      · simp [containerPath, hfd]
    simp only [noCollisionAt, hL, List.all_nil]
    rw [List.all_eq_true]
    intro fc _
    split
    · split <;> rfl
    · rfl
    · rfl

/-- **C16, for inputs without nesting: `derive` never panics.** When no member is flattened and no struct-level ghost is
    addressed to a nested struct — every enum, and every struct without `#[child(..)]` and `path@name` ghosts — the
    derive, whatever else the input contains, reports diagnostics or generates the impls; it never panics. -/
theorem C16_derive_never_panics_without_nesting (b : Back) (node : RawInput) (input : DataType)
    (hp : parseInput b node = some input) (hraw : node.shapeWF = true) (hn : input.noNesting = true)
    (s : String) : derive b node ≠ .panic s :=
  C16_derive_never_panics_without_collision b node input hp hraw (noKeyCollision_of_noNesting input hn) s

end O2o
