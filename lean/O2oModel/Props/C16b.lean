/-
C16, second part — inventories: for whole functions of the expander, *every* panic they can end in, for every input
(validated or not). What is not in a function's list is unreachable from it, whatever the input; what is in the list is
either a listed finding or shown unreachable for validated inputs by the per-site theorems of `Props/C16.lean`.
The proofs run a small calculus (`Lemmas/NoPanic.lean`: `NP site r` — "r is not the panic at site") through the code,
for the mutually recursive descent by induction on its fuel.
-/
import O2oModel.Props.C16
namespace O2o

/-- the sites the descent of a struct body (`struct_init_block` and the five functions it recurses through, the member
    lines and ghost lines they write) can stop at whatever the names of the struct-level ghosts are .. -/
def coreSites : List String := [
  "expand.rs:render_struct_line:unreachable(6)",
  "expand.rs:ApplicableAttr::get_ident:unreachable(8)",
  "expand.rs:ApplicableAttr::get_ident:unreachable(18)",
  "expand.rs:ApplicableAttr::get_ident:unreachable(19)",
  "expand.rs:render_child_fragment:child_parents_attr unwrap",
  "expand.rs:render_child_fragment:child_data unwrap",
  "expand.rs:render_parent_child_fragment:sub_path type unwrap",
  "expand.rs:render_parent_child_fragment:field.ty unwrap",
  "expand.rs:render_child:child_path index",
  "expand.rs:render_child:unreachable(15)",
  "expand.rs:struct_init_block_inner:unreachable(2)",
  "expand.rs:struct_init_block_inner:ghost child_path unwrap",
  "attr.rs:ChildPath::get_child_path_str:index"]

/-- .. and one more when a struct-level / variant-level `#[ghosts]` entry is named by a destructuring pattern -/
def bodySites : List String := coreSites ++ ["attr.rs:GhostIdent::get_ident:unreachable(16)"]

/-- the names of these `#[ghosts]` entries can all be asked for (without reaching the panic at `s`) -/
def GhostsOK (s : String) (gas : List GhostsAttr) : Prop := ∀ ga ∈ gas, ∀ g ∈ ga.attr.ghostData, NP s g.ghostIdent.getIdent

/-- what the descent needs to know about the conversion context: it refers to a struct (the deriving struct, or a variant
    presented as one), whose type-level ghosts are named -/
def CtxOK (s : String) (ctx : ImplContext) : Prop := ctx.input.isEnum = false ∧ GhostsOK s ctx.input.attrs.ghostsAttrs

theorem ghostsAttr_mem (a : DataTypeAttrs) (ty : TypePath) (k : Kind) (ga : StructGhostAttrCore)
    (h : a.ghostsAttr ty k = some ga) : ∃ x ∈ a.ghostsAttrs, x.attr = ga := by
  unfold DataTypeAttrs.ghostsAttr findDedicatedOrDefault at h
  simp only [Option.map_eq_some_iff] at h
  obtain ⟨x, hx, rfl⟩ := h
  refine ⟨x, ?_, rfl⟩
  cases h1 : a.ghostsAttrs.find? (fun x => x.appl.get k && isSomeEq x.attr.containerTy ty) with
  | some y =>
    simp [h1, HOrElse.hOrElse, OrElse.orElse, Option.orElse] at hx
    subst hx
    exact List.mem_of_find?_eq_some h1
  | none =>
    simp [h1, HOrElse.hOrElse, OrElse.orElse, Option.orElse] at hx
    exact List.mem_of_find?_eq_some hx

theorem renderGhostLine_np_of (s : String) (g : GhostData) (ctx : ImplContext) (hid : NP s g.ghostIdent.getIdent)
    (hk : ctx.kind.isFrom = false) : NP s (renderGhostLine g ctx) := by
  unfold renderGhostLine
  simp only []
  apply NP.bind _ _ _ hid
  intro m
  have hcls : ctx.kind.cls ≠ .from_ := by
    intro hc
    have := cls_from _ hc
    simp [hk] at this
  split <;> first | (split <;> exact NP.pure _ _) | exact NP.pure _ _ | (rename_i hc; exact absurd hc hcls)

section
variable (s : String) (hA : ∀ site ∈ coreSites, site ≠ s)
include hA

theorem structGhostLines_np (ctx : ImplContext) (fc : FieldCtx) (hok : GhostsOK s ctx.input.attrs.ghostsAttrs) :
    NP s (structGhostLines ctx fc) := by
  have hix : "attr.rs:ChildPath::get_child_path_str:index" ≠ s := hA _ (by decide)
  unfold structGhostLines
  split
  · rename_i hk
    have hk' : ctx.kind.isFrom = false := by simpa using hk
    split
    · rename_i ga hga
      obtain ⟨x, hx, rfl⟩ := ghostsAttr_mem _ _ _ _ hga
      apply NP.foldlM_mem
      intro acc g hg
      have hid := hok x hx g hg
      split
      · apply NP.bind
        · unfold GhostData.getChildPathStr
          split
          · exact getStr_none_np _ _
          · exact NP.ok _ _
        · intro a
          apply NP.bind _ _ _ (getStr_np _ hix _ _)
          intro b
          split
          · exact NP.bind _ _ _ (renderGhostLine_np_of _ _ _ hid hk') (fun _ => NP.pure _ _)
          · exact NP.pure _ _
      · exact NP.bind _ _ _ (renderGhostLine_np_of _ _ _ hid hk') (fun _ => NP.pure _ _)
      · exact NP.pure _ _
    · exact NP.pure _ _
  · exact NP.pure _ _

theorem structLine_np (f : Field) (ctx : ImplContext) (hint : TypeHint) (idx : Nat) (hs : fieldSkipped ctx f = false) :
    NP s (renderStructLine f ctx hint idx none) := by
  intro h
  rcases C16_struct_line_panics f ctx hint idx s hs h with h | h
  · exact hA _ (by decide) h.symm
  · exact hA _ (by decide) h.symm

theorem parentLine_np (f : Field) (ctx : ImplContext) (hint : TypeHint) (idx : Nat) (pc : ParentChildField) :
    NP s (renderStructLine f ctx hint idx (some pc)) := by
  intro h
  rcases C16_parent_line_panics f ctx hint idx pc s h with h | h
  · exact hA _ (by decide) h.symm
  · exact hA _ (by decide) h.symm

omit hA in
theorem namedFields_np (d : DataType) (hd : d.isEnum = false) : NP s d.namedFields := by
  cases d with
  | struct st => exact NP.ok _ _
  | enum e => simp [DataType.isEnum] at hd

theorem wrapInit_np (ctx : ImplContext) (hint : TypeHint) (n : Bool) (fr : TS) : NP s (wrapInit ctx hint n fr) := by
  unfold wrapInit
  repeat' (first | exact NP.panicAt _ _ (hA _ (by decide)) | np_step)

theorem levelBreak_np (fc : FieldCtx) (p : String) : NP s (levelBreak fc p) := by
  unfold levelBreak
  repeat' (first | exact getStr_np _ (hA _ (by decide)) _ _ | np_step)

omit hA in
theorem parentChildHint_np (ctx : ImplContext) (th : TypeHint) (hin : ctx.input.isEnum = false) : NP s (parentChildHint ctx th) := by
  unfold parentChildHint
  repeat' (first | exact namedFields_np s _ hin | np_step)
def BodyNP (fuel : Nat) : Prop :=
  (∀ members named ctx fctx, CtxOK s ctx → NP s (structInitBlockInner fuel members named ctx fctx)) ∧
  (∀ members named ctx fctx th frags idx, CtxOK s ctx → NP s (structInitLoop fuel members named ctx fctx th frags idx)) ∧
  (∀ cp fields ctx depth th line, CtxOK s ctx → NP s (line ()) → NP s (renderChildFragment fuel cp fields ctx depth th line)) ∧
  (∀ field pc fields named ctx depth lh idx, CtxOK s ctx → NP s (renderParentChildFragment fuel field pc fields named ctx depth lh idx)) ∧
  (∀ cd fields named ctx cp depth hint, CtxOK s ctx → NP s (renderChild fuel cd fields named ctx cp depth hint)) ∧
  (∀ fields named ctx cp depth, CtxOK s ctx → NP s (renderExistingChild fuel fields named ctx cp depth))

theorem body_np : ∀ fuel, BodyNP s fuel := by
  intro fuel
  induction fuel with
  | zero =>
    refine ⟨?_, ?_, ?_, ?_, ?_, ?_⟩
    · intros; unfold structInitBlockInner; exact NP.error_unsupported _ _
    · intros; unfold structInitLoop; exact NP.error_unsupported _ _
    · intros; unfold renderChildFragment; exact NP.error_unsupported _ _
    · intros; unfold renderParentChildFragment; exact NP.error_unsupported _ _
    · intros; unfold renderChild; exact NP.error_unsupported _ _
    · intros; unfold renderExistingChild; exact NP.error_unsupported _ _
  | succ fuel ih =>
    obtain ⟨ihInner, ihLoop, ihCF, ihPCF, ihChild, ihEx⟩ := ih
    refine ⟨?_, ?_, ?_, ?_, ?_, ?_⟩
    · intro members named ctx fctx hin
      unfold structInitBlockInner
      simp only []
      refine NP.bind _ _ _ (ihLoop _ _ _ _ _ _ _ hin) (fun _ => ?_)
      refine NP.bind _ _ _ (structGhostLines_np s hA _ _ hin.2) (fun _ => ?_)
      exact NP.bind _ _ _ (wrapInit_np s hA _ _ _ _) (fun _ => NP.pure _ _)
    · intro members named ctx fctx th frags idx hin
      unfold structInitLoop
      cases members with
      | nil => exact NP.ok _ _
      | cons fc rest =>
        simp only []
        refine NP.bind _ _ _ (levelBreak_np s hA _ _) (fun brk => ?_)
        split
        · exact NP.pure _ _
        · split
          · -- a member
            rename_i f _
            split
            · exact ihLoop _ _ _ _ _ _ _ hin
            · rename_i hskip
              have hskip' : fieldSkipped ctx f = false := by simpa using hskip
              split
              · refine NP.bind _ _ _ (ihCF _ _ _ _ _ _ hin (structLine_np s hA _ _ _ _ hskip')) (fun _ => ihLoop _ _ _ _ _ _ _ hin)
              · refine NP.bind _ _ _ (structLine_np s hA _ _ _ _ hskip') (fun _ => ihLoop _ _ _ _ _ _ _ hin)
          · -- a struct-level ghost entry
            split
            · exact NP.panicAt _ _ (hA _ (by decide))
            · refine NP.bind _ _ _ (ihCF _ _ _ _ _ _ hin (NP.ok _ _)) (fun _ => ihLoop _ _ _ _ _ _ _ hin)
          · -- a nested member of a #[parent(..)] list
            refine NP.bind _ _ _ (parentChildHint_np s _ _ hin.1) (fun _ => ?_)
            refine NP.bind _ _ _ (ihPCF _ _ _ _ _ _ _ _ hin) (fun _ => ihLoop _ _ _ _ _ _ _ hin)
    · intro cp fields ctx depth th line hin hline
      unfold renderChildFragment
      split
      · split
        · -- Into: the nested struct is built from its #[child_parents] entry
          split
          · exact NP.panicAt _ _ (hA _ (by decide))
          · refine NP.bind _ _ _ (getStr_np _ (hA _ (by decide)) _ _) (fun _ => ?_)
            split
            · exact NP.panicAt _ _ (hA _ (by decide))
            · exact NP.bind _ _ _ (namedFields_np s _ hin.1) (fun _ => ihChild _ _ _ _ _ _ _ hin)
        · exact NP.bind _ _ _ (namedFields_np s _ hin.1) (fun _ => ihEx _ _ _ _ _ hin)
        · exact NP.bind _ _ _ hline (fun _ => NP.pure _ _)
      · exact NP.bind _ _ _ hline (fun _ => NP.pure _ _)
    · intro field pc fields named ctx depth lh idx hin
      unfold renderParentChildFragment
      split
      · rename_i hcond
        simp only [Bool.and_eq_true] at hcond
        refine NP.bind _ _ _ ?_ (fun _ => NP.bind _ _ _ (namedFields_np s _ hin.1) (fun _ => ihChild _ _ _ _ _ _ _ hin))
        split
        · rename_i d
          split
          · exact NP.pure _ _
          · exact NP.panicAt _ _ (hA _ (by decide))
          · -- the index is below the length: the guard `depth.unwrap() < sub_path.len()` was just tested
            rename_i hnone
            have hd : d < pc.subPath.length := by simpa [deeperThan] using hcond.1
            simp [List.getElem?_eq_getElem hd] at hnone
        · split
          · exact NP.pure _ _
          · exact NP.panicAt _ _ (hA _ (by decide))
      · exact NP.bind _ _ _ (parentLine_np s hA _ _ _ _ _) (fun _ => NP.ok _ _)
    · intro cd fields named ctx cp depth hint hin
      unfold renderChild
      simp only []
      refine NP.bind _ _ _ ?_ (fun _ => ?_)
      · split
        · exact NP.pure _ _
        · exact NP.panicAt _ _ (hA _ (by decide))
      · refine NP.bind _ _ _ (ihInner _ _ _ _ hin) (fun _ => ?_)
        refine NP.bind _ _ _ (namedFields_np s _ hin.1) (fun _ => ?_)
        split <;> first | exact NP.pure _ _ | exact NP.panicAt _ _ (hA _ (by decide))
    · intro fields named ctx cp depth hin
      unfold renderExistingChild
      exact NP.bind _ _ _ (getStr_np _ (hA _ (by decide)) _ _) (fun _ => ihInner _ _ _ _ hin)
end

theorem structInitBlock_np_core (s : String) (hA : ∀ site ∈ coreSites, site ≠ s) (input : Struct) (ctx : ImplContext)
    (hok : CtxOK s ctx) : NP s (structInitBlock input ctx) := by
  unfold structInitBlock
  split
  · exact NP.pure _ _
  · exact NP.bind _ _ _ ((body_np s hA _).1 _ _ _ _ hok) (fun _ => NP.pure _ _)

theorem ghostsOK_of_ne (s : String) (h16 : "attr.rs:GhostIdent::get_ident:unreachable(16)" ≠ s) (gas : List GhostsAttr) :
    GhostsOK s gas := fun _ _ g _ => ghostIdent_np _ h16 g.ghostIdent

/-- C16 (struct bodies, all sites at once): for every struct, every conversion and every input — validated or not —
    `struct_init_block` either yields tokens, or reports exhausted fuel (`unsupported`, never agreement), or stops at one
    of the fourteen sites of `bodySites` (the conversion context refers to a struct — the deriving struct itself, or the
    variant being rendered: that is how `struct_init_block` is always called, see `C16_expansion_panics`). In particular
    it never reaches `render_parent`'s `unreachable!("5")`, `render_ghost_line`'s `("7")`, `get_ident`'s `("9")`,
    `get_field_name_or`'s `("10")`, `get_stuff`'s `ghost_attr.action.unwrap()`, the index
    `parent_child_field.sub_path[depth]`, `variant_destruct_block`'s `("4")`, `render_enum_ghost_line`'s `("17")`, the
    `todo!()`s, an `err_ty.unwrap()` or `DataType::named_fields`' `panic!`. -/
theorem C16_struct_body_panics (input : Struct) (ctx : ImplContext) (s : String) (hin : ctx.input.isEnum = false)
    (h : structInitBlock input ctx = .error (.panic s)) : s ∈ bodySites := by
  by_cases hm : s ∈ bodySites
  · exact hm
  exfalso
  have hB : ∀ site ∈ bodySites, site ≠ s := fun site hs e => hm (e ▸ hs)
  have hA : ∀ site ∈ coreSites, site ≠ s := fun site hs => hB site (List.mem_append_left _ hs)
  exact structInitBlock_np_core s hA input ctx ⟨hin, ghostsOK_of_ne s (hB _ (by decide)) _⟩ h

/-- the sites named in the statement above are indeed outside the list -/
example : ["expand.rs:render_parent:unreachable(5)", "expand.rs:render_ghost_line:unreachable(7)",
    "expand.rs:ApplicableAttr::get_ident:unreachable(9)", "expand.rs:ApplicableAttr::get_field_name_or:unreachable(10)",
    "expand.rs:ApplicableAttr::get_stuff:ghost action unwrap", "expand.rs:render_parent_child_fragment:sub_path index",
    "expand.rs:variant_destruct_block:unreachable(4)", "expand.rs:render_enum_ghost_line:unreachable(17)",
    "expand.rs:struct_post_init:todo", "expand.rs:render_enum_line:todo", "expand.rs:quote_try_*_trait:err_ty unwrap",
    "ast.rs:DataType::named_fields:panic"].all
    (fun x => !bodySites.contains x) = true := by decide

/-- and every entry of the list is a label the model can answer with (a row of the regenerated inventory) -/
example : bodySites.all (fun x => modelledLabels.contains x) = true := by decide

/-! ### the whole expansion stage -/

theorem mapM_np_mem {α β : Type} (s : String) (f : α → E β) : ∀ l : List α, (∀ a ∈ l, NP s (f a)) → NP s (l.mapM f) := by
  intro l
  induction l with
  | nil => intro _; exact NP.pure _ _
  | cons a rest ih =>
    intro hf
    simp only [List.mapM_cons]
    exact NP.bind _ _ _ (hf a List.mem_cons_self)
      (fun _ => NP.bind _ _ _ (ih (fun a' ha' => hf a' (List.mem_cons_of_mem _ ha'))) (fun _ => NP.pure _ _))

theorem getStuff_np_of (s : String) (a : ApplicableAttr) (h : ∀ g, a = .ghost g → g.action.isSome = true)
    (obj : TS) (fp : Member → TS) (ctx : ImplContext) (or : Member) : NP s (a.getStuff obj fp ctx or) := by
  cases a with
  | field c => simp only [ApplicableAttr.getStuff]; exact getStuffInner_np _ _ _ _ _ _ _
  | parentChildField p k => exact getStuff_np_pc _ p k _ _ _ _ _ rfl
  | ghost g =>
    have := h g rfl
    cases hact : g.action with
    | none => simp [hact] at this
    | some act => simp only [ApplicableAttr.getStuff, hact]; exact NP.ok _ _

/-- `variant_destruct_block` stops nowhere when the variant-level ghosts are named -/
theorem variantDestructBlock_np (s : String) (input : Struct) (ctx : ImplContext) (hok : GhostsOK s input.attrs.ghostsAttrs) :
    NP s (variantDestructBlock input ctx) := by
  unfold variantDestructBlock
  simp only []
  apply NP.bind'
  · apply first_np
    apply NP.foldlM_mem
    intro acc x hx
    simp only [List.mem_filter] at hx
    split
    · rename_i a ha
      split
      · exact NP.pure _ _
      · rename_i hfrom
        have hfrom' : ctx.kind.isFrom = true := by simpa using hfrom
        have hng : (x.attrs.ghost ctx.ty ctx.kind).isNone = true := by simpa [hfrom'] using hx.2
        apply NP.bind _ _ _ ?_ (fun _ => NP.pure _ _)
        cases a with
        | ghost g =>
          have := (applicableAttr_ghost_iff _ _ _ _ g).mp ha
          simp [this] at hng
        | field c => simp only [ApplicableAttr.getFieldNameOr]; exact NP.ok _ _
        | parentChildField p k => exact absurd ha (applicableAttr_not_pc _ _ _ _ p k)
    · exact NP.pure _ _
  · intro a ha
    obtain ⟨ids, hint⟩ := a
    have hh : hint ≠ .unspecified := first_hint _ _ _ _ _ _ ha
    apply NP.bind
    · split
      · split
        · rename_i ga hga
          obtain ⟨x, hx, rfl⟩ := ghostsAttr_mem _ _ _ _ hga
          apply NP.foldlM_mem
          intro acc g hg
          refine NP.bind _ _ _ (hok x hx g hg) (fun m => ?_)
          split <;> exact NP.pure _ _
        · exact NP.pure _ _
      · exact NP.pure _ _
    · intro ids2
      cases hint with
      | unspecified => exact absurd rfl hh
      | struct => exact NP.pure _ _
      | tuple => exact NP.pure _ _
      | unit => exact NP.pure _ _

/-- the sites the expansion of a *validated* input can stop at (as far as proved): the core sites of a struct body, the
    `todo!()` of `render_enum_line` (a listed finding) and the one of `struct_post_init` -/
def validatedSites : List String := coreSites ++ [
  "expand.rs:render_enum_line:todo",
  "expand.rs:struct_post_init:todo"]

/-- every site the expansion of any parsed input can stop at: three more, which validation closes -/
def expansionSites : List String := validatedSites ++ [
  "attr.rs:GhostIdent::get_ident:unreachable(16)",
  "expand.rs:render_enum_ghost_line:unreachable(17)",
  "expand.rs:quote_try_*_trait:err_ty unwrap"]

section
variable (s : String) (hA : ∀ site ∈ validatedSites, site ≠ s)
include hA

theorem hA_core : ∀ site ∈ coreSites, site ≠ s := fun site h => hA site (List.mem_append_left _ h)

theorem renderEnumLine_np (v : Variant) (ctx : ImplContext) (hc : variantContributes ctx v = true)
    (hok : GhostsOK s v.attrs.ghostsAttrs) : NP s (renderEnumLine v ctx) := by
  unfold renderEnumLine
  simp only []
  refine NP.bind _ _ _ ?_ (fun destr => NP.bind _ _ _ ?_ (fun init => ?_))
  · repeat' (first | exact variantDestructBlock_np s _ _ hok | np_step)
  · repeat' (first | exact structInitBlock_np_core s (hA_core s hA) _ _ ⟨rfl, hok⟩ | np_step)
  · split
    · exact NP.pure _ _
    · -- From, instruction: never a ghost for a contributing variant
      rename_i a hattr _ _ hcls
      have hfrom := cls_from _ hcls
      have hng : ∀ g, a ≠ .ghost g := fun g hg => C16_variant_not_ghost_from ctx v hfrom hc g (hg ▸ hattr)
      refine NP.bind _ _ _ (getActionOr_np _ _ _ _ _) (fun _ => NP.bind _ _ _ ?_ (fun _ => NP.pure _ _))
      cases a with
      | ghost g => exact absurd rfl (hng g)
      | field c => simp only [ApplicableAttr.getFieldNameOr]; exact NP.ok _ _
      | parentChildField p k => exact absurd hattr (applicableAttr_not_pc _ _ _ _ p k)
    · -- Into, instruction: a ghost here has a default (the variant contributes)
      rename_i a hattr _ _ hcls
      have hnf := cls_not_from _ (Or.inl hcls)
      refine NP.bind _ _ _ ?_ (fun _ => NP.pure _ _)
      apply getStuff_np_of
      intro g hg
      subst hg
      have hgl := (applicableAttr_ghost_iff _ _ _ _ g).mp hattr
      simp only [variantContributes, hnf, ghostNoDefault, hgl, Bool.false_and, Bool.not_false, Bool.true_and] at hc
      simpa using hc
    · exact NP.pure _ _
    · exact NP.pure _ _
    · exact NP.pure _ _
    · exact NP.bind _ _ _ (getActionOr_np _ _ _ _ _) (fun _ => NP.pure _ _)
    · exact NP.panicAt _ _ (hA _ (by decide))

theorem enumInitBlock_np (input : Enum) (ctx : ImplContext)
    (hvs : ∀ v ∈ input.variants, GhostsOK s v.attrs.ghostsAttrs)
    (h17 : ∀ g ∈ enumGhostData input ctx, NP s (renderEnumGhostLine g ctx)) : NP s (enumInitBlock input ctx) := by
  unfold enumInitBlock
  refine NP.bind _ _ _ ?_ (fun _ => NP.bind _ _ _ ?_ (fun _ => NP.pure _ _))
  · apply NP.foldlM_mem
    intro acc v hv
    unfold enumArmStep
    split
    · rename_i hc
      exact NP.bind _ _ _ (renderEnumLine_np s hA v ctx hc (hvs v hv)) (fun _ => NP.pure _ _)
    · exact NP.pure _ _
  · apply NP.foldlM_mem
    intro acc g hg
    exact NP.bind _ _ _ (h17 g hg) (fun _ => NP.pure _ _)

/-- what the three sites outside `validatedSites` need: named type-level / variant-level ghosts, enum-level ghost lines of
    the input's own `#[ghosts]`, and the error type of a fallible conversion -/
def Closed (ctx : ImplContext) : Prop :=
  (∀ st, ctx.input = .struct st → GhostsOK s st.attrs.ghostsAttrs) ∧
  (∀ e, ctx.input = .enum e → (∀ v ∈ e.variants, GhostsOK s v.attrs.ghostsAttrs) ∧
      ∀ g ∈ enumGhostData e ctx, NP s (renderEnumGhostLine g ctx)) ∧
  (ctx.fallible = true → NP s (errTyPath ctx))

theorem mainCodeBlock_np (ctx : ImplContext) (hcl : Closed s ctx) : NP s (mainCodeBlock ctx) := by
  unfold mainCodeBlock
  split
  · exact NP.ok _ _
  · split
    · rename_i st hst
      unfold structMainCodeBlock
      refine NP.bind _ _ _ (structInitBlock_np_core s (hA_core s hA) _ _
        ⟨by simp [DataType.isEnum, hst], by rw [hst]; exact hcl.1 st hst⟩) (fun _ => ?_)
      split <;> exact NP.pure _ _
    · rename_i e he
      unfold enumMainCodeBlock
      refine NP.bind _ _ _ (enumInitBlock_np s hA _ _ (hcl.2.1 e he).1 (hcl.2.1 e he).2) (fun _ => ?_)
      split <;> exact NP.pure _ _

theorem mainCodeBlockOk_np (ctx : ImplContext) (hcl : Closed s ctx) : NP s (mainCodeBlockOk ctx) := by
  unfold mainCodeBlockOk
  split
  · exact NP.ok _ _
  · refine NP.bind _ _ _ ?_ (fun _ => by split <;> exact NP.pure _ _)
    split
    · rename_i st hst
      unfold structMainCodeBlock
      refine NP.bind _ _ _ (structInitBlock_np_core s (hA_core s hA) _ _
        ⟨by simp [DataType.isEnum, hst], by rw [hst]; exact hcl.1 st hst⟩) (fun _ => ?_)
      split <;> exact NP.pure _ _
    · rename_i e he
      unfold enumMainCodeBlock
      refine NP.bind _ _ _ (enumInitBlock_np s hA _ _ (hcl.2.1 e he).1 (hcl.2.1 e he).2) (fun _ => ?_)
      split <;> exact NP.pure _ _

omit hA in
theorem renderParent_np (f : Field) (ctx : ImplContext) (h : ctx.kind.isFrom = false) : NP s (renderParent f ctx) := by
  obtain ⟨ts, hts⟩ := C16_site_render_parent f ctx h
  rw [hts]
  exact NP.ok _ _

theorem postInitOf_np (input : DataType) (ctx : ImplContext) : NP s (postInitOf input ctx) := by
  unfold postInitOf
  split
  · exact NP.pure _ _
  · rename_i hcond
    have hnf : ctx.kind.isFrom = false := by
      cases hf : ctx.kind.isFrom with
      | false => rfl
      | true => simp [hf] at hcond
    unfold structPostInit
    refine NP.bind _ _ _ ?_ (fun _ => ?_)
    · apply NP.foldlM
      intro acc m
      split
      · split
        · exact NP.bind _ _ _ (renderParent_np s _ _ hnf) (fun _ => NP.pure _ _)
        · exact NP.panicAt _ _ (hA _ (by decide))
      · exact NP.pure _ _
    · split <;> exact NP.pure _ _

theorem quoteTrait_np (input : DataType) (ctx : ImplContext) (hcl : ∀ b, Closed s { ctx with hasPostInit := b }) :
    NP s (quoteTrait input ctx) := by
  unfold quoteTrait
  simp only []
  refine NP.bind _ _ _ (postInitOf_np s hA _ _) (fun pi => ?_)
  have hc := hcl pi.isSome
  split <;>
    repeat' (first | exact mainCodeBlock_np s hA _ hc | exact mainCodeBlockOk_np s hA _ hc | exact hc.2.2 (by assumption) | np_step)
end

/-- C16 (the whole expansion stage, all sites at once): for every parsed input — validated or not — generating the
    impls either succeeds, or reports exhausted fuel, or stops at one of the eighteen sites of `expansionSites`. The other
    panic sites of `expand.rs` — `variant_destruct_block`'s `unreachable!("4")`, `render_parent`'s `("5")`,
    `render_ghost_line`'s `("7")`, `get_ident`'s `("9")`, `get_field_name_or`'s `("10")`,
    `get_stuff`'s `ghost_attr.action.unwrap()`, the index `sub_path[depth]` and `DataType::named_fields`' `panic!` (the
    descent only ever runs over a struct or over one variant presented as a struct) — cannot be reached by any input. -/
theorem C16_expansion_panics (input : DataType) (s : String)
    (h : dataTypeImpls input = .error (.panic s)) : s ∈ expansionSites := by
  by_cases hm : s ∈ expansionSites
  · exact hm
  exfalso
  have hE : ∀ site ∈ expansionSites, site ≠ s := fun site hs e => hm (e ▸ hs)
  have hA : ∀ site ∈ validatedSites, site ≠ s := fun site hs => hE site (List.mem_append_left _ hs)
  have h16 : "attr.rs:GhostIdent::get_ident:unreachable(16)" ≠ s := hE _ (by decide)
  revert h
  show NP s _
  unfold dataTypeImpls
  refine mapM_np_mem s _ _ (fun ctx _ => quoteTrait_np s hA input ctx (fun b => ⟨?_, ?_, ?_⟩))
  · intro st _
    exact ghostsOK_of_ne s h16 _
  · intro e _
    refine ⟨fun v _ => ghostsOK_of_ne s h16 _, ?_⟩
    intro g _
    unfold renderEnumGhostLine
    repeat' (first | exact NP.panicAt _ _ (hE _ (by decide)) | np_step)
  · intro _
    unfold errTyPath
    repeat' (first | exact NP.panicAt _ _ (hE _ (by decide)) | np_step)

/-- the eight sites named above are rows of the regenerated inventory and outside the list -/
example : ["expand.rs:variant_destruct_block:unreachable(4)", "expand.rs:render_parent:unreachable(5)",
    "expand.rs:render_ghost_line:unreachable(7)", "expand.rs:ApplicableAttr::get_ident:unreachable(9)",
    "expand.rs:ApplicableAttr::get_field_name_or:unreachable(10)", "expand.rs:ApplicableAttr::get_stuff:ghost action unwrap",
    "expand.rs:render_parent_child_fragment:sub_path index", "ast.rs:DataType::named_fields:panic"].all
    (fun x => modelledLabels.contains x && !expansionSites.contains x) = true := by decide

example : expansionSites.all (fun x => modelledLabels.contains x) = true := by decide

theorem ctx_input_of_mem (input : DataType) (ctx : ImplContext) (hctx : ctx ∈ implContexts input) : ctx.input = input := by
  unfold implContexts at hctx
  simp only [List.mem_flatMap, List.mem_map] at hctx
  obtain ⟨_, _, _, _, rfl⟩ := hctx
  rfl

/-- C16 (validated inputs): when validation accepts the input, the expansion cannot stop at `unreachable!("16")`,
    `unreachable!("17")` nor at an `err_ty.unwrap()` either — fifteen sites remain: the four listed `unreachable!`s of the
    member lines and the `todo!()` of `render_enum_line` (findings with witnesses), and ten for which the per-site
    theorems of `Props/C16.lean` give the condition validation establishes (`C16_ghost_child_paths_declared`,
    `C16_child_hint_not_unit`, `C16_parent_member_has_type`, `C16_site_ghost_child_path`) or nothing yet (the depth
    indices, `sub_path`'s type, `struct_post_init`'s `todo!()`). -/
theorem C16_validated_expansion_panics (input : DataType) (hv : validate input = []) (s : String)
    (h : dataTypeImpls input = .error (.panic s)) : s ∈ validatedSites := by
  by_cases hm : s ∈ validatedSites
  · exact hm
  exfalso
  have hA : ∀ site ∈ validatedSites, site ≠ s := fun site hs e => hm (e ▸ hs)
  revert h
  show NP s _
  unfold dataTypeImpls
  refine mapM_np_mem s _ _ (fun ctx hctx => quoteTrait_np s hA input ctx (fun b => ⟨?_, ?_, ?_⟩))
  · intro st hst
    have hin : input = .struct st := by rw [← ctx_input_of_mem input ctx hctx]; exact hst
    subst hin
    intro ga hga g hg
    obtain ⟨m, hm'⟩ := C16_site_16_struct st hv ga hga g hg
    rw [hm']; exact NP.ok _ _
  · intro e he
    have hin : input = .enum e := by rw [← ctx_input_of_mem input ctx hctx]; exact he
    subst hin
    refine ⟨?_, ?_⟩
    · intro v hvm ga hga g hg
      obtain ⟨m, hm'⟩ := C16_site_16_variant e hv v hvm ga hga g hg
      rw [hm']; exact NP.ok _ _
    · intro g hg
      unfold enumGhostData at hg
      split at hg
      · rename_i ga hga
        obtain ⟨x, hx, rfl⟩ := ghostsAttr_mem _ _ _ _ hga
        obtain ⟨ts, hts⟩ := C16_site_17_unreachable e hv x hx g hg { ctx with hasPostInit := b }
        rw [hts]; exact NP.ok _ _
      · simp at hg
  · intro hf
    have hf' : ctx.fallible = true := hf
    obtain ⟨ts, hts⟩ := C16_err_ty_sites_unreachable input ctx hv hctx hf'
    show NP s (errTyPath ctx)
    rw [hts]; exact NP.ok _ _

/-! ### the instruction dispatch -/

/-- a table with an unguarded wildcard arm selects an arm for every name and every flag combination -/
theorem findArm_total (arms : List Gen.Arm) (h : arms.any (fun a => a.names.isEmpty && a.guard == .none) = true)
    (instr : String) (own bark : Bool) : (findArm arms instr own bark).isSome = true := by
  unfold findArm
  rw [List.find?_isSome]
  obtain ⟨a, ha, hp⟩ := List.any_eq_true.mp h
  simp only [Bool.and_eq_true, beq_iff_eq] at hp
  exact ⟨a, ha, by simp [hp.1, hp.2, guardOk]⟩

/-- C16 (`parse_data_type_instruction` / `parse_member_instruction`): the regenerated `match` tables of both dispatchers
    end in an unguarded `_ =>` arm — the model's "no arm" answer (a `match` that would not be exhaustive in Rust) can
    never be given -/
theorem C16_dispatch_total (instr : String) (own bark : Bool) :
    (findArm Gen.typeArms instr own bark).isSome = true ∧ (findArm Gen.memberArms instr own bark).isSome = true :=
  ⟨findArm_total _ (by decide) _ _ _, findArm_total _ (by decide) _ _ _⟩

end O2o
