/-
C13 — #[o2o(...)] alternative syntaxes generate the same code as bare attributes.
The bare branch calls the instruction parser with (own_instr = false, bark), the `#[o2o(..)]` branch with
(own_instr = true, bark = true). The theorems show the flags cannot influence the instruction that is built for
any name that has a bare form.
-/
import O2oModel.Expand
import O2oModel.Lemmas.Grouping
namespace O2o

/-- instructions with a bare form, as registered by `proc_macro_derive(o2o, attributes(..))` -/
def bareForms : List String := Gen.declaredAttrs.filter (· != "o2o")

/-- C13 (tables): for every instruction with a bare form, at type level and at member level, whatever `allow_unknown`
    says, the same match arm is selected in both spellings, or the arm is one of the error arms (misplaced / misnamed)
    in both spellings — which differ only in the `own` flag that selects the "To turn this message off…" suffix —
    or the name is no instruction at that level at all (ignored when bare, reported inside `o2o(..)`). -/
theorem C13_same_arm :
    bareForms.all (fun name => [true, false].all fun bark =>
      [Gen.typeArms, Gen.memberArms].all fun arms =>
        match findArm arms name false bark, findArm arms name true true with
        | some a, some a' =>
          a == a' ||
          -- names that are *not* instructions at this level: bare they may belong to another macro and are ignored
          -- (always for unknown names, under allow_unknown for misplaced ones); inside o2o(..) they are reported.
          (a.kind == .unrecognized && (match a'.kind with | .misplaced => true | .misnamed _ => true | .unrecognizedWithError => true | _ => false))
        | _, _ => false) = true := by decide

/-- names that are instructions at type level (their arm builds an instruction, not an error) -/
def typeInstrNames : List String := bareForms.filter fun n =>
  match findArm Gen.typeArms n true true with
  | some a => (match a.kind with | .map _ => true | .ghosts => true | .childParents => true | .whereClause => true | _ => false)
  | none => false

def memberInstrNames : List String := bareForms.filter fun n =>
  match findArm Gen.memberArms n true true with
  | some a => (match a.kind with
    | .map _ => true | .ghost => true | .ghosts => true | .child => true | .parent => true | .lit => true | .pat => true | .typeHint => true | _ => false)
  | none => false

theorem typeInstr_arm_eq : typeInstrNames.all (fun n => [true, false].all fun bark =>
    findArm Gen.typeArms n false bark == findArm Gen.typeArms n true true) = true := by decide

theorem memberInstr_arm_eq : memberInstrNames.all (fun n => [true, false].all fun bark =>
    findArm Gen.memberArms n false bark == findArm Gen.memberArms n true true) = true := by decide

/-- C13-1 (type level): for every real type-level instruction and every argument token list, the bare spelling and
    the `#[o2o(..)]` spelling hand the *same* parsed instruction (or the same parse error) to the rest of the derive -/
theorem C13_type_instr (b : Back) (name : String) (ts : TS) (bark : Bool) (h : name ∈ typeInstrNames) :
    parseDataTypeInstruction b name ts false bark = parseDataTypeInstruction b name ts true true := by
  have := List.all_eq_true.mp typeInstr_arm_eq name h
  have hb : (findArm Gen.typeArms name false bark == findArm Gen.typeArms name true true) = true := by
    cases bark
    · exact (List.all_eq_true.mp this false (by simp))
    · exact (List.all_eq_true.mp this true (by simp))
  have e : findArm Gen.typeArms name false bark = findArm Gen.typeArms name true true := by
    exact eq_of_beq hb
  have hk : name ∈ bareForms.filter _ := h
  unfold parseDataTypeInstruction
  rw [e]
  simp only [typeInstrNames, List.mem_filter] at h
  cases hf : findArm Gen.typeArms name true true with
  | none => simp [hf] at h
  | some arm =>
    simp only [hf] at h
    cases hkind : arm.kind <;> simp_all

/-- C13-1 (member level) -/
theorem C13_member_instr (b : Back) (name : String) (ts : TS) (bark : Bool) (h : name ∈ memberInstrNames) :
    parseMemberInstruction b name ts false bark = parseMemberInstruction b name ts true true := by
  have := List.all_eq_true.mp memberInstr_arm_eq name h
  have hb : (findArm Gen.memberArms name false bark == findArm Gen.memberArms name true true) = true := by
    cases bark
    · exact (List.all_eq_true.mp this false (by simp))
    · exact (List.all_eq_true.mp this true (by simp))
  have e : findArm Gen.memberArms name false bark = findArm Gen.memberArms name true true := eq_of_beq hb
  unfold parseMemberInstruction
  rw [e]
  simp only [memberInstrNames, List.mem_filter] at h
  cases hf : findArm Gen.memberArms name true true with
  | none => simp [hf] at h
  | some arm =>
    simp only [hf] at h
    cases hkind : arm.kind <;> simp_all

/-- the argument tokens are the same in both spellings: a bare `#[name(args)]` yields `args`, and inside
    `#[o2o(name(args))]` the element parser takes the content of the parenthesised group after the name -/
theorem C13_bare_tokens (b : Back) (path : TS) (ts : TS) : bareAttrTokens b ⟨path, .list .paren ts⟩ = .ok ts := by
  cases b <;> rfl

theorem C13_bare_tokens_path (b : Back) (path : TS) : bareAttrTokens b ⟨path, .path⟩ = .ok [] := by
  cases b <;> rfl

theorem typeInstrNames_not_keyword : [Back.syn1, Back.syn2].all (fun b => typeInstrNames.all fun n => !isKeyword b n) = true := by decide
theorem memberInstrNames_not_keyword : [Back.syn1, Back.syn2].all (fun b => memberInstrNames.all fun n => !isKeyword b n) = true := by decide

theorem allResults_congr {α : Type} (f g : String → TS → Except PErr α) (items : List (String × Option TS))
    (h : ∀ e ∈ items, f e.1 (e.2.getD []) = g e.1 (e.2.getD [])) : allResults f items = allResults g items := by
  induction items with
  | nil => rfl
  | cons e rest ih =>
    rw [allResults, allResults, elemResult, elemResult, h e List.mem_cons_self, ih (fun e' he => h e' (List.mem_cons_of_mem _ he))]

/-- C13-2 (grouping, type level): a whole `#[o2o(i1(args1), i2, i3(args3), ..)]` list, of any length, parses to exactly
    the list of instructions that the separate bare attributes `#[i1(args1)] #[i2] #[i3(args3)] ..` parse to, one by one
    and in the same order (or to the error of the first element that fails) -/
theorem C13_grouping_type (b : Back) (bark : Bool) (items : List (String × Option TS)) (h : ∀ e ∈ items, e.1 ∈ typeInstrNames) :
    parse2 (parseTerminated (o2oElem b fun instr c => parseDataTypeInstruction b instr c true true)) (o2oTokens items)
      = allResults (fun instr c => parseDataTypeInstruction b instr c false bark) items := by
  have hk : ∀ e ∈ items, isKeyword b e.1 = false := by
    intro e he
    have := List.all_eq_true.mp (List.all_eq_true.mp typeInstrNames_not_keyword b (by cases b <;> simp)) e.1 (h e he)
    simpa using this
  rw [parse2_o2o_list b _ items hk]
  exact allResults_congr _ _ items fun e he => (C13_type_instr b e.1 _ bark (h e he)).symm

/-- C13-2 (grouping, member level) -/
theorem C13_grouping_member (b : Back) (bark : Bool) (items : List (String × Option TS)) (h : ∀ e ∈ items, e.1 ∈ memberInstrNames) :
    parse2 (parseTerminated (o2oElem b fun instr c => parseMemberInstruction b instr c true true)) (o2oTokens items)
      = allResults (fun instr c => parseMemberInstruction b instr c false bark) items := by
  have hk : ∀ e ∈ items, isKeyword b e.1 = false := by
    intro e he
    have := List.all_eq_true.mp (List.all_eq_true.mp memberInstrNames_not_keyword b (by cases b <;> simp)) e.1 (h e he)
    simpa using this
  rw [parse2_o2o_list b _ items hk]
  exact allResults_congr _ _ items fun e he => (C13_member_instr b e.1 _ bark (h e he)).symm

/-- non-vacuity: a three-element list with and without arguments -/
example : o2oTokens [("map", some [.ident "X"]), ("owned_into", some [.ident "Y"]), ("allow_unknown", none)]
    = [.ident "map", .group .paren [.ident "X"], p ',', .ident "owned_into", .group .paren [.ident "Y"], p ',', .ident "allow_unknown"] := rfl

/-- non-vacuity: the real instruction names -/
example : typeInstrNames.length = 27 ∧ memberInstrNames.length = 28 := by decide

end O2o
