/-
C12 — shortcut instructions equal the basic instructions they abbreviate.
-/
import O2oModel.Props.C04
namespace O2o

def nameOf (base : String) (fall : Bool) : String :=
  match traitNames.find? (fun e => e.2.1 == base && e.2.2 == fall) with
  | some e => e.1
  | none => "?"

def applSixFns : List String := ["appl_owned_into", "appl_ref_into", "appl_from_owned", "appl_from_ref", "appl_owned_into_existing", "appl_ref_into_existing"]

def pairwiseDisjoint (as : List Appl) : Bool :=
  Kind.all.all fun k => (as.filter (·.get k)).length ≤ 1

/-- C12-1 (type and member level share the `appl_*` functions): for every README shortcut, infallible and
    `try_` form, the kinds it applies to are exactly the union of the kinds of the basic instructions it
    abbreviates, and those are pairwise disjoint — so each generated impl has exactly one origin. -/
theorem C12_table :
    Gen.readmeShortcuts.all (fun (s, basics) =>
      [false, true].all fun fall =>
        let A := applOf applSixFns (nameOf s fall)
        let parts := basics.map fun b => applOf applSixFns (nameOf b fall)
        pairwiseDisjoint parts && Kind.all.all (fun k => A.get k == parts.any (·.get k))) = true := by decide

/-- the parser arms give shortcut and basic names the same treatment (same arm ⇒ same argument grammar, same
    fallibility), at type level and at member level -/
theorem C12_same_arm :
    Gen.readmeShortcuts.all (fun (s, basics) =>
      [false, true].all fun fall =>
        basics.all fun b =>
          (findArm Gen.typeArms (nameOf s fall) false true == findArm Gen.typeArms (nameOf b fall) false true) &&
          (findArm Gen.memberArms (nameOf s fall) false true == findArm Gen.memberArms (nameOf b fall) false true)) = true := by decide

/-- the nested `[instr(..)]` parser inside `#[parent(..)]` knows the same shortcut names and uses the same tables -/
theorem C12_nested :
    (Gen.readmeShortcuts.all (fun (s, basics) => Gen.nestedMapNames.contains s && basics.all Gen.nestedMapNames.contains)
      && Gen.nestedAppl == applSixFns) = true := by decide

/-- `ghost` = `ghost_owned` + `ghost_ref`, `ghosts` = `ghosts_owned` + `ghosts_ref` (disjoint union over the 6 kinds) -/
theorem C12_ghost_table :
    [("ghost", "ghost_owned", "ghost_ref", Gen.memberArms), ("ghosts", "ghosts_owned", "ghosts_ref", Gen.memberArms),
     ("ghosts", "ghosts_owned", "ghosts_ref", Gen.typeArms)].all (fun (s, o, r, arms) =>
      match findArm arms s false true, findArm arms o false true, findArm arms r false true with
      | some a, some ao, some ar =>
        a == ao && a == ar &&
        (let A := applOf a.appl s
         let parts := [applOf a.appl o, applOf a.appl r]
         pairwiseDisjoint parts && Kind.all.all (fun k => A.get k == parts.any (·.get k)))
      | _, _, _ => false) = true := by decide

/-! ### writing a shortcut out does not change which instruction each pass selects (any list length) -/

def withAppl (a : TraitAttr) (A : Appl) : TraitAttr := { a with appl := A }

theorem filter_parts_core (a : TraitAttr) (parts : List Appl) (k : Kind) (f : Bool) :
    (((parts.map (withAppl a)).filter fun x => x.fallible == f && x.appl.get k).map (·.core))
      = (parts.filter fun A => a.fallible == f && A.get k).map fun _ => a.core := by
  induction parts with
  | nil => rfl
  | cons A rest ih =>
    simp only [List.map_cons, List.filter_cons, withAppl]
    by_cases h : (a.fallible == f && A.get k) = true
    · simp only [h, if_true, List.map_cons]
      rw [← ih]
    · have h' : (a.fallible == f && A.get k) = false := by simpa using h
      simp only [h', Bool.false_eq_true, if_false]
      exact ih

theorem const_map_of_length {α β : Type} (xs : List α) (c : β) (n : Nat) (h : xs.length = n) :
    xs.map (fun _ => c) = List.replicate n c := by
  subst h
  induction xs with
  | nil => rfl
  | cons x xs ih => simp [List.replicate, ih]

/-- C12-2: if the written-out instructions carry the same parameters and their kinds partition the shortcut's
    kinds (C12-1 shows the documented expansions do), every one of the twelve passes selects the same trait
    instruction cores in the same order — so `data_type_impl` emits the same impls in the same order. -/
theorem C12_type_level (pre post : List TraitAttr) (a : TraitAttr) (parts : List Appl) (k : Kind) (f : Bool)
    (hpart : (parts.filter (·.get k)).length = if a.appl.get k then 1 else 0) :
    ((pre ++ parts.map (withAppl a) ++ post).filter (fun x => x.fallible == f && x.appl.get k)).map (·.core)
      = ((pre ++ [a] ++ post).filter (fun x => x.fallible == f && x.appl.get k)).map (·.core) := by
  simp only [List.filter_append, List.map_append]
  congr 2
  rw [filter_parts_core]
  by_cases hf : (a.fallible == f) = true
  · simp only [hf, Bool.true_and]
    by_cases hk : a.appl.get k = true
    · simp only [hk, if_true] at hpart
      rw [const_map_of_length _ _ 1 hpart]
      simp [List.filter, hf, hk]
    · simp only [hk] at hpart
      simp at hpart
      have : parts.filter (fun A => A.get k) = [] := by
        apply List.eq_nil_of_length_eq_zero
        simpa using hpart
      simp [this, List.filter, hf, hk]
  · have e : (a.fallible == f) = false := by simpa using hf
    simp [e, List.filter]

/-- non-vacuity: `map` written out as the four documented basic instructions satisfies the partition premise for every kind -/
example : Kind.all.all (fun k =>
    (([ "from_owned", "from_ref", "owned_into", "ref_into"].map (applOf applSixFns)).filter (·.get k)).length
      == (if (applOf applSixFns "map").get k then 1 else 0)) = true := by decide

/-- C12 (*table*, regenerated): the six basic kinds are indexed in the order the applicability vectors are written in
    (`impl Index<&Kind>`), and every (kind, fallibility) is displayed under the name of its basic instruction — the
    names the shortcut tables and the diagnostics use -/
theorem C12_kind_tables :
    (Gen.kindIndex == [("OwnedInto", 0), ("RefInto", 1), ("FromOwned", 2), ("FromRef", 3), ("OwnedIntoExisting", 4), ("RefIntoExisting", 5)]
     && Gen.fallibleKindName == [(("OwnedInto", false), "owned_into"), (("RefInto", false), "ref_into"), (("FromOwned", false), "from_owned"),
          (("FromRef", false), "from_ref"), (("OwnedIntoExisting", false), "owned_into_existing"), (("RefIntoExisting", false), "ref_into_existing"),
          (("OwnedInto", true), "owned_try_into"), (("RefInto", true), "ref_try_into"), (("FromOwned", true), "try_from_owned"),
          (("FromRef", true), "try_from_ref"), (("OwnedIntoExisting", true), "owned_try_into_existing"), (("RefIntoExisting", true), "ref_try_into_existing")]) = true := by
  decide

/-- C12 (*table*, regenerated): every arm that builds a trait / member mapping instruction — type level and member level,
    fallible and not — fills its applicability vector with the six `appl_*` functions in kind-index order, so the kinds an
    instruction name stands for are decided by those six functions alone (and those are compared with the README by
    `C12_table`) -/
theorem C12_map_arm_vectors :
    ((Gen.typeArms ++ Gen.memberArms).all fun a =>
      match a.kind with
      | .map _ => a.appl == applSixFns
      | _ => true) = true := by decide

/-- the instruction names that stand for fallible conversions: the six basic ones and their shortcuts -/
def fallibleNames : List String :=
  ["owned_try_into", "ref_try_into", "try_from_owned", "try_from_ref", "owned_try_into_existing", "ref_try_into_existing",
   "try_into", "try_from", "try_map_owned", "try_map_ref", "try_map", "try_into_existing"]

/-- C12 (*table*, regenerated): an arm marks the instruction it builds as fallible exactly when the names it matches
    are the fallible ones — at type level and at member level, basic names and shortcuts alike — so a shortcut and
    its written-out form agree on fallibility -/
theorem C12_fallible_flag :
    ((Gen.typeArms ++ Gen.memberArms).all fun a =>
      match a.kind with
      | .map true => a.names.all (fallibleNames.contains ·)
      | .map false => a.names.all (fun n => !fallibleNames.contains n)
      | _ => true) = true := by decide

/-! ### member level: writing a shortcut out does not change the instruction a member lookup selects -/

def withApplM (a : MemberAttr) (A : Appl) : MemberAttr := { a with appl := A }

theorem filter_parts_attr (a : MemberAttr) (parts : List Appl) (k : Kind) (f : Bool) :
    (((parts.map (withApplM a)).filter fun x => x.fallible == f && x.appl.get k).map (·.attr))
      = (parts.filter fun A => a.fallible == f && A.get k).map fun _ => a.attr := by
  induction parts with
  | nil => rfl
  | cons A rest ih =>
    simp only [List.map_cons, List.filter_cons, withApplM]
    by_cases h : (a.fallible == f && A.get k) = true
    · simp only [h, if_true, List.map_cons]
      rw [← ih]
    · have h' : (a.fallible == f && A.get k) = false := by simpa using h
      simp only [h', Bool.false_eq_true, if_false]
      exact ih

/-- the candidates of one (kind, fallibility), as instruction cores in written order, are the same for the shortcut and
    for its written-out form -/
theorem member_candidates_eq (pre post : List MemberAttr) (a : MemberAttr) (parts : List Appl) (k : Kind) (f : Bool)
    (hpart : (parts.filter (·.get k)).length = if a.appl.get k then 1 else 0) :
    ((pre ++ parts.map (withApplM a) ++ post).filter (fun x => x.fallible == f && x.appl.get k)).map (·.attr)
      = ((pre ++ [a] ++ post).filter (fun x => x.fallible == f && x.appl.get k)).map (·.attr) := by
  simp only [List.filter_append, List.map_append]
  congr 2
  rw [filter_parts_attr]
  by_cases hf : (a.fallible == f) = true
  · simp only [hf, Bool.true_and]
    by_cases hk : a.appl.get k = true
    · simp only [hk, if_true] at hpart
      rw [const_map_of_length _ _ 1 hpart]
      simp [List.filter, hf, hk]
    · simp only [hk] at hpart
      simp at hpart
      have : parts.filter (fun A => A.get k) = [] := by
        apply List.eq_nil_of_length_eq_zero
        simpa using hpart
      simp [this, List.filter, hf, hk]
  · have e : (a.fallible == f) = false := by simpa using hf
    simp [e, List.filter]

/-- a search whose test only looks at the instruction core finds the same core in two lists with equal cores -/
theorem find_map_congr {α β : Type} (g : α → β) (q : β → Bool) : ∀ (l1 l2 : List α), l1.map g = l2.map g →
    (l1.find? fun x => q (g x)).map g = (l2.find? fun x => q (g x)).map g
  | [], [], _ => rfl
  | [], _ :: _, h => by simp at h
  | _ :: _, [], h => by simp at h
  | x :: l1, y :: l2, h => by
    simp only [List.map_cons, List.cons.injEq] at h
    simp only [List.find?_cons, h.1]
    cases q (g y) with
    | true => simp [h.1]
    | false => exact find_map_congr g q l1 l2 h.2

theorem orElse_map_congr {α β : Type} (g : α → β) (x1 x2 y1 y2 : Option α)
    (h1 : x1.map g = y1.map g) (h2 : x2.map g = y2.map g) : (x1 <|> x2).map g = (y1 <|> y2).map g := by
  cases x1 <;> cases y1 <;> simp_all [HOrElse.hOrElse, OrElse.orElse, Option.orElse]

/-- C12-2 (member level): with a shortcut member instruction replaced by its written-out basic instructions (same
    parameters, kinds partitioned — `C12_table` shows the documented expansions do that), the "dedicated, else default"
    lookup of every (kind, fallibility, counterpart) selects the same instruction core — hence `applicable_attr`, and with
    it every generated line, is unchanged. Any number of other instructions before and after. -/
theorem C12_member_level (m : MemberAttrs) (pre post : List MemberAttr) (a : MemberAttr) (parts : List Appl) (k : Kind) (f : Bool) (ty : TypePath)
    (hpart : (parts.filter (·.get k)).length = if a.appl.get k then 1 else 0) :
    ({ m with attrs := pre ++ parts.map (withApplM a) ++ post } : MemberAttrs).fieldAttrCore k f ty
      = ({ m with attrs := pre ++ [a] ++ post } : MemberAttrs).fieldAttrCore k f ty := by
  have hc := member_candidates_eq pre post a parts k f hpart
  unfold MemberAttrs.fieldAttrCore MemberAttrs.fieldAttr MemberAttrs.iterForKind findDedicatedOrDefault
  simp only [Bool.true_and]
  have h1 := find_map_congr (fun x : MemberAttr => x.attr) (fun c : MemberAttrCore => isSomeEq c.containerTy ty) _ _ hc
  have h2 := find_map_congr (fun x : MemberAttr => x.attr) (fun c : MemberAttrCore => c.containerTy.isNone) _ _ hc
  exact orElse_map_congr _ _ _ _ _ h1 h2

end O2o
