/-
Model of o2o-impl/src/expand.rs. Every `quote!` becomes an explicit token list with the spacing
`quote!` gives its punctuation; every partial operation of the Rust code is an explicit
`.error (.panic site)`; the `Peekable` cursor is the explicit remaining list.
-/
import O2oModel.Validate
namespace O2o

abbrev E := Except PErr

def panicAt {α} (site : String) : E α := .error (.panic site)

inductive ImplType | struct | enum | variant
  deriving DecidableEq, Repr, Inhabited

structure ImplContext where
  input : DataType
  implType : ImplType
  structAttr : TraitAttrCore
  kind : Kind
  dstTy : TS
  srcTy : TS
  hasPostInit : Bool
  fallible : Bool
  deriving Inhabited

def ImplContext.ty (c : ImplContext) : TypePath := c.structAttr.ty
def ImplContext.isVariant (c : ImplContext) : Bool := c.implType == .variant

/-- `::` as `quote!` emits it -/
def cc : TS := [j ':', p ':']
def fatArrow : TS := [j '=', p '>']
def dot : Tok := p '.'
def comma : Tok := p ','
def semi : Tok := p ';'
def colon : Tok := p ':'
def eq : Tok := p '='

def fIdent (n : Nat) : Member := .named ("f" ++ toString n)

/-! ### `@` / `~` substitution -/

mutual
/-- `replace_tilde_or_at_in_expr`, one token -/
def replaceTok (at_ tilde : TS) : Tok → TS
  | .group d ts =>
    match d with
    | .none => replaceList at_ tilde ts
    | d => [.group d (replaceList at_ tilde ts)]
  | .punct c jn => if c == '~' then tilde else if c == '@' then at_ else [.punct c jn]
  | t => [t]
/-- `replace_tilde_or_at_in_expr` -/
def replaceList (at_ tilde : TS) : List Tok → TS
  | [] => []
  | t :: ts => replaceTok at_ tilde t ++ replaceList at_ tilde ts
end

/-- instantiate the `n`-th `quote!` body of a translated function -/
def skel (tmpls : List (List Gen.Tm)) (n : Nat) (env : List (String × TS)) : TS :=
  Gen.Tm.instList env (tmpls.getD n [])

def srcIdent (k : Kind) : TS := if k.isFrom then skel Gen.tmpl_quote_action 0 [] else skel Gen.tmpl_quote_action 1 []

/-- the token list substituted for `~` -/
def tildePath (ctx : ImplContext) (tildePostfix : Option TS) : TS :=
  let env := [("ident", srcIdent ctx.kind), ("dst", ctx.dstTy), ("tilde_postfix", tildePostfix.getD [])]
  match ctx.implType with
  | .struct => skel Gen.tmpl_quote_action 2 env
  | .enum => skel Gen.tmpl_quote_action 3 env
  | .variant => skel Gen.tmpl_quote_action 4 env

/-- `quote_action` -/
def quoteAction (action : TS) (tildePostfix : Option TS) (ctx : ImplContext) : TS :=
  replaceList (srcIdent ctx.kind) (tildePath ctx tildePostfix) action

/-! ### `impl ApplicableAttr` -/

def ApplicableAttr.getIdent : ApplicableAttr → E Member
  | .field a => match a.member with
    | some m => .ok m
    | none => panicAt "expand.rs:ApplicableAttr::get_ident:unreachable(8)"
  | .parentChildField pc k =>
    match pc.getForKind k with
    | some a => match a.thatMember with
      | some m => .ok m
      | none => panicAt "expand.rs:ApplicableAttr::get_ident:unreachable(18)"
    | none => panicAt "expand.rs:ApplicableAttr::get_ident:unreachable(19)"
  | .ghost _ => panicAt "expand.rs:ApplicableAttr::get_ident:unreachable(9)"

def ApplicableAttr.getFieldNameOr (a : ApplicableAttr) (field : Member) : E Member :=
  match a with
  | .field c => .ok (c.member.getD field)
  | .ghost _ => panicAt "expand.rs:ApplicableAttr::get_field_name_or:unreachable(10)"
  | .parentChildField pc k =>
    match pc.getForKind k with
    | some x => .ok (x.thatMember.getD pc.thisMember)
    | none => .ok pc.thisMember

def ApplicableAttr.getActionOr (a : ApplicableAttr) (fieldPath : Option TS) (ctx : ImplContext) (or : TS) : E TS :=
  match a with
  | .field c => match c.action with
    | some v => .ok (quoteAction v fieldPath ctx)
    | none => .ok or
  | .parentChildField pc k =>
    match pc.getForKind k with
    | some x => match x.action with
      | some v => .ok (quoteAction v fieldPath ctx)
      | none => .ok or
    | none => .ok or
  | .ghost g => match g.action with
    | some v => .ok (quoteAction v none ctx)
    | none => .ok or

def getStuffInner (member : Option Member) (action : Option TS) (obj : TS) (fieldPath : Member → TS)
    (ctx : ImplContext) (or : Member) : E TS :=
  match member, action with
  | some ident, some action =>
    match ident with
    | .unnamed n =>
      if ctx.isVariant then .ok (quoteAction action (some (fieldPath (fIdent n))) ctx)
      else .ok (quoteAction action (some (fieldPath ident)) ctx)
    | .named _ => .ok (quoteAction action (some (fieldPath ident)) ctx)
  | some ident, none =>
    match ident with
    | .unnamed n => if ctx.isVariant then .ok (obj ++ fieldPath (fIdent n)) else .ok (obj ++ fieldPath ident)
    | .named _ => .ok (obj ++ fieldPath ident)
  | none, some action => .ok (quoteAction action (some (fieldPath or)) ctx)
  | none, none => .ok (obj ++ fieldPath or)

def ApplicableAttr.getStuff (a : ApplicableAttr) (obj : TS) (fieldPath : Member → TS) (ctx : ImplContext) (or : Member) : E TS :=
  match a with
  | .field c => getStuffInner c.member c.action obj fieldPath ctx or
  | .parentChildField pc k =>
    match pc.getForKind k with
    | some x =>
      if x.thatMember.isSome then getStuffInner x.thatMember x.action obj fieldPath ctx or
      else getStuffInner (some pc.thisMember) x.action obj fieldPath ctx or
    | none => getStuffInner (some pc.thisMember) none obj fieldPath ctx or
  | .ghost g => match g.action with
    | some act => .ok (quoteAction act none ctx)
    | none => panicAt "expand.rs:ApplicableAttr::get_stuff:ghost action unwrap"

/-! ### one struct line -/

inductive KC | into | existing | from_
  deriving DecidableEq, Repr

def Kind.cls (k : Kind) : KC := if k.isFrom then .from_ else if k.isIntoExisting then .existing else .into

/-- the bare-`#[parent]` conversion on the From side -/
def parentConv (ctx : ImplContext) : TS :=
  match ctx.kind.isRef, ctx.fallible with
  | true, true => [i "value", dot, i "try_into", paren [], p '?', comma]
  | true, false => [i "value", dot, i "into", paren [], comma]
  | false, true => [paren [p '&', i "value"], dot, i "try_into", paren [], p '?', comma]
  | false, false => [paren [p '&', i "value"], dot, i "into", paren [], comma]

/-- `render_struct_line` -/
def renderStructLine (f : Field) (ctx : ImplContext) (hint : TypeHint) (idx : Nat) (parentChild : Option ParentChildField) : E TS := do
  let member := match parentChild with | some pc => pc.thisMember | none => f.member
  let attr : Option ApplicableAttr := match parentChild with
    | some pc => some (.parentChildField pc ctx.kind)
    | none => f.attrs.applicableAttr ctx.kind ctx.fallible ctx.ty
  let getFieldPath (x : Member) : TS := match f.attrs.child ctx.ty with
    | some ca => memberPathTS ca.childPath.path ++ [dot] ++ x.toTS
    | none => x.toTS
  let getChildFieldPath (x : Member) : TS := match parentChild with
    | some pc => x.toTS ++ pc.subPathTokens ++ [dot] ++ member.toTS
    | none => x.toTS
  let obj : TS := if ctx.isVariant then [] else srcIdent ctx.kind ++ [dot]
  let hasParent := f.attrs.hasParentAttr ctx.ty
  let other := [i "other", dot]
  match member, attr, ctx.kind.cls, hint with
  | .named ident, none, .into, .struct | .named ident, none, .into, .unspecified =>
    if ctx.hasPostInit then return [i "obj", dot, i ident, eq] ++ obj ++ [i ident, semi]
    else return [i ident, colon] ++ obj ++ [i ident, comma]
  | .named ident, none, .existing, .struct | .named ident, none, .existing, .unspecified =>
    return other ++ getFieldPath f.member ++ [eq] ++ obj ++ [i ident, semi]
  | .named ident, none, .into, .tuple =>
    if ctx.hasPostInit then return [i "obj", dot] ++ (Member.unnamed idx).toTS ++ [eq] ++ obj ++ [i ident, semi]
    else return obj ++ [i ident, comma]
  | .named ident, none, .existing, .tuple =>
    return other ++ (Member.unnamed f.idx).toTS ++ [eq] ++ obj ++ [i ident, semi]
  | .named ident, none, .from_, .struct | .named ident, none, .from_, .unspecified | .named ident, none, .from_, .unit =>
    if hasParent then return [i ident, colon] ++ parentConv ctx
    else return [i ident, colon] ++ obj ++ getFieldPath f.member ++ [comma]
  | .named ident, none, .from_, .tuple =>
    let fieldPath := if ctx.isVariant then getFieldPath (fIdent f.idx) else getFieldPath (.unnamed f.idx)
    return [i ident, colon] ++ obj ++ fieldPath ++ [comma]
  | .unnamed index, none, .into, .tuple | .unnamed index, none, .into, .unspecified =>
    if ctx.hasPostInit then
      return [i "obj", dot] ++ (Member.unnamed idx).toTS ++ [eq] ++ obj ++ (Member.unnamed index).toTS ++ [semi]
    else
      let ix := if ctx.isVariant then (fIdent index).toTS else (Member.unnamed index).toTS
      return obj ++ ix ++ [comma]
  | .unnamed index, none, .existing, .tuple | .unnamed index, none, .existing, .unspecified =>
    return other ++ (Member.unnamed f.idx).toTS ++ [eq] ++ obj ++ (Member.unnamed index).toTS ++ [semi]
  | .unnamed index, none, .from_, .tuple | .unnamed index, none, .from_, .unspecified | .unnamed index, none, .from_, .unit =>
    if hasParent then return parentConv ctx
    else
      let fieldPath := if ctx.isVariant then getFieldPath (fIdent index) else getFieldPath f.member
      return obj ++ fieldPath ++ [comma]
  | .unnamed _, none, _, .struct =>
    if hasParent then return parentConv ctx
    else panicAt "expand.rs:render_struct_line:unreachable(6)"
  | .named _, some attr, .into, .struct | .named _, some attr, .into, .unspecified => do
    let fieldName ← attr.getFieldNameOr f.member
    let fieldPath := getChildFieldPath f.member
    let rightSide ← attr.getActionOr (some fieldPath) ctx (obj ++ fieldPath)
    if ctx.hasPostInit then return [i "obj", dot] ++ fieldName.toTS ++ [eq] ++ rightSide ++ [semi]
    else return fieldName.toTS ++ [colon] ++ rightSide ++ [comma]
  | .named _, some attr, .existing, .struct | .named _, some attr, .existing, .unspecified => do
    let left := getFieldPath (← attr.getFieldNameOr f.member)
    let rfp := getChildFieldPath f.member
    let rightSide ← attr.getActionOr (some rfp) ctx (obj ++ rfp)
    return other ++ left ++ [eq] ++ rightSide ++ [semi]
  | .named _, some attr, .into, .tuple => do
    let rfp := getChildFieldPath f.member
    let rightSide ← attr.getActionOr (some rfp) ctx (obj ++ rfp)
    if ctx.hasPostInit then return [i "obj", dot] ++ (Member.unnamed idx).toTS ++ [eq] ++ rightSide ++ [semi]
    else return rightSide ++ [comma]
  | .named _, some attr, .existing, .tuple => do
    let left := getFieldPath (.unnamed idx)
    let rfp := getChildFieldPath f.member
    let rightSide ← attr.getActionOr (some rfp) ctx (obj ++ rfp)
    return other ++ left ++ [eq] ++ rightSide ++ [semi]
  | .named _, some attr, .from_, .struct | .named _, some attr, .from_, .unspecified | .named _, some attr, .from_, .unit => do
    let rightSide ← attr.getStuff obj getFieldPath ctx f.member
    let idnt := match parentChild with | some g => g.thisMember | none => f.member
    return idnt.toTS ++ [colon] ++ rightSide ++ [comma]
  | .named ident, some attr, .from_, .tuple => do
    let rightSide ← attr.getStuff obj getFieldPath ctx (if ctx.isVariant then fIdent f.idx else .unnamed f.idx)
    return [i ident, colon] ++ rightSide ++ [comma]
  | .unnamed index, some attr, .into, .tuple | .unnamed index, some attr, .into, .unspecified => do
    let ix := if ctx.isVariant then fIdent index else f.member
    let fieldPath := getChildFieldPath ix
    let rightSide ← attr.getActionOr (some fieldPath) ctx (obj ++ fieldPath)
    if ctx.hasPostInit then return [i "obj", dot] ++ (Member.unnamed idx).toTS ++ [eq] ++ rightSide ++ [semi]
    else return rightSide ++ [comma]
  | .unnamed _, some attr, .existing, .tuple | .unnamed _, some attr, .existing, .unspecified => do
    let left := getFieldPath (← attr.getFieldNameOr f.member)
    let rfp := getChildFieldPath f.member
    let rightSide ← attr.getActionOr (some rfp) ctx (obj ++ rfp)
    return other ++ left ++ [eq] ++ rightSide ++ [semi]
  | .unnamed index, some attr, .into, .struct => do
    let fieldName ← attr.getIdent
    let fieldPath := getChildFieldPath f.member
    let or := if ctx.isVariant then (fIdent index).toTS else fieldPath
    let rightSide ← attr.getActionOr (some or) ctx (obj ++ or)
    if ctx.hasPostInit then return [i "obj", dot] ++ fieldName.toTS ++ [eq] ++ rightSide ++ [semi]
    else return fieldName.toTS ++ [colon] ++ rightSide ++ [comma]
  | .unnamed _, some attr, .existing, .struct => do
    let left := getFieldPath (← attr.getIdent)
    let rfp := getChildFieldPath f.member
    let rightSide ← attr.getActionOr (some rfp) ctx (obj ++ rfp)
    return other ++ left ++ [eq] ++ rightSide ++ [semi]
  | .unnamed index, some attr, .from_, _ => do
    let rightSide ← attr.getStuff obj getFieldPath ctx (if ctx.isVariant then fIdent index else f.member)
    return rightSide ++ [comma]
  | _, _, .into, .unit | _, _, .existing, .unit => return []

/-- `render_ghost_line` -/
def renderGhostLine (g : GhostData) (ctx : ImplContext) : E TS := do
  let ch : TS := match g.childPath with
    | some c => memberPathTS c.path ++ [dot]
    | none => []
  let rightSide := quoteAction g.action none ctx
  let ghostIdent ← g.ghostIdent.getIdent
  match ghostIdent, ctx.kind.cls with
  | .named ident, .into =>
    if ctx.hasPostInit then return [i "obj", dot] ++ ch ++ [i ident, eq] ++ rightSide ++ [semi]
    else return [i ident, colon] ++ rightSide ++ [comma]
  | .unnamed n, .into =>
    if ctx.hasPostInit then return [i "obj", dot] ++ ch ++ (Member.unnamed n).toTS ++ [eq] ++ rightSide ++ [semi]
    else return rightSide ++ [comma]
  | .named ident, .existing => return [i "other", dot] ++ ch ++ [i ident, eq] ++ rightSide ++ [semi]
  | .unnamed n, .existing => return [i "other", dot] ++ ch ++ (Member.unnamed n).toTS ++ [eq] ++ rightSide ++ [semi]
  | _, .from_ => panicAt "expand.rs:render_ghost_line:unreachable(7)"

/-- `render_enum_ghost_line` -/
def renderEnumGhostLine (g : GhostData) (ctx : ImplContext) : E TS :=
  let rightSide := quoteAction g.action none ctx
  match g.ghostIdent with
  | .member (.unnamed _) => panicAt "expand.rs:render_enum_ghost_line:unreachable(17)"
  | .member (.named ident) =>
    if ctx.kind.isFrom then .ok (ctx.srcTy ++ cc ++ [i ident] ++ fatArrow ++ rightSide ++ [comma]) else .ok []
  | .destruction destr =>
    if ctx.kind.isFrom then .ok (ctx.srcTy ++ cc ++ destr ++ fatArrow ++ rightSide ++ [comma]) else .ok []

/-! ### struct init block: grouping, ordering and the recursive descent -/

inductive FieldData
  | field (f : Field)
  | ghostData (g : GhostData)
  | parentChildField (f : Field) (pc : ParentChildField)
  deriving Inhabited

structure FieldContainer where
  grIdx : Nat
  path : String
  fieldData : FieldData
  deriving Inhabited

/-- `group_paths : HashMap<String, usize>` — only `contains_key` / `get` / `insert` / `len` are used -/
abbrev GroupPaths := List (String × Nat)

/-- the `make_tuple` closure -/
def makeTuple (gp : GroupPaths) (path : String) (fd : FieldData) : GroupPaths × FieldContainer × Bool :=
  match gp.find? (·.1 == path) with
  | some (_, g) => (gp, { grIdx := g, path := path, fieldData := fd }, false)
  | none => (gp ++ [(path, gp.length)], { grIdx := gp.length, path := path, fieldData := fd }, true)

/-- insertion sort by `gr_idx`, stable (what `sort_by` guarantees) -/
def insertByGr (x : FieldContainer) : List FieldContainer → List FieldContainer
  | [] => [x]
  | y :: ys => if x.grIdx ≤ y.grIdx then x :: y :: ys else y :: insertByGr x ys

def sortByGr (xs : List FieldContainer) : List FieldContainer := xs.foldr insertByGr []

/-- a path as it has to be written in front of a struct expression: the generic arguments of its own segments get `::`
    (`Type<A>` → `Type::<A>`); what stands inside the angle brackets is in type position and stays as it is -/
def exprPathAux : Nat → Bool → TS → TS
  | _, _, [] => []
  | 0, true, .punct '<' jn :: r => j ':' :: p ':' :: .punct '<' jn :: exprPathAux 1 false r
  | d, _, .punct '<' jn :: r => .punct '<' jn :: exprPathAux (d + 1) false r
  | d, _, .punct '-' true :: .punct '>' jn :: r => .punct '-' true :: .punct '>' jn :: exprPathAux d false r
  | d, _, .punct '>' jn :: r => .punct '>' jn :: exprPathAux (d - 1) false r
  | d, _, .ident s :: r => .ident s :: exprPathAux d true r
  | d, _, t :: r => t :: exprPathAux d false r

def exprPath (ty : TS) : TS := exprPathAux 0 false ty

structure ChildRenderContext where
  ty : TS
  typeHint : TypeHint

/-- `field_ctx : Option<(&ChildPath, Option<&ChildRenderContext>, usize)>` -/
abbrev FieldCtx := Option (ChildPath × Option ChildRenderContext × Nat)

def pathMatches (path pfx : String) : Bool := path == pfx || path.startsWith (pfx ++ ".")

def wrapInit (ctx : ImplContext) (hint : TypeHint) (namedFields : Bool) (frags : TS) : E TS :=
  if ctx.hasPostInit || ctx.kind.isIntoExisting then .ok frags else
  if ctx.kind.isFrom then .ok [if namedFields then brace frags else paren frags] else
  match hint with
  | .struct => .ok [brace frags]
  | .tuple => .ok [paren frags]
  | .unspecified => .ok [if namedFields then brace frags else paren frags]
  | .unit => panicAt "expand.rs:struct_init_block_inner:unreachable(2)"

/-- a `#[ghost]` applicable to this conversion that declares no default -/
def ghostNoDefault (ctx : ImplContext) (attrs : MemberAttrs) : Bool :=
  match attrs.ghost ctx.ty ctx.kind with
  | some g => g.action.isNone
  | none => false

/-- members that contribute no line to a conversion (the two `members.next(); continue;` guards of
    `struct_init_block_inner`): ghosts and parent members on the Into side, ghosts without a default on the From side -/
def fieldSkipped (ctx : ImplContext) (f : Field) : Bool :=
  (!ctx.kind.isFrom && ((f.attrs.ghost ctx.ty ctx.kind).isSome || f.attrs.hasParentAttr ctx.ty)) ||
  (ctx.kind.isFrom && ghostNoDefault ctx f.attrs)

/-- the tokens `..update` contributes (last fragment of a struct body) -/
def updateToks (ctx : ImplContext) : TS :=
  match ctx.structAttr.update with
  | some u => [j '.', p '.'] ++ quoteAction u none ctx
  | none => []

/-- the struct-level `#[ghosts(..)]` lines emitted at one level of the descent (Into / IntoExisting only): entries
    without child path at the top level, entries addressed to exactly this child path inside a child -/
def structGhostLines (ctx : ImplContext) (fieldCtx : FieldCtx) : E TS :=
  if !ctx.kind.isFrom then
    match ctx.input.attrs.ghostsAttr ctx.ty ctx.kind with
    | some ga =>
      ga.ghostData.foldlM (fun (acc : TS) x => do
        match x.childPath, fieldCtx with
        | some _, some (cp, _, d) =>
          if (← x.getChildPathStr none) == (← cp.getStr (some d)) then return acc ++ (← renderGhostLine x ctx) else return acc
        | none, none => return acc ++ (← renderGhostLine x ctx)
        | _, _ => return acc) []
    | none => pure []
  else pure []

/-- the loop's break test: inside a nested struct the run ends at the first member whose path is neither the struct's
    path nor below it; the top level runs to the end -/
def levelBreak (fieldCtx : FieldCtx) (path : String) : E Bool :=
  match fieldCtx with
  | some (cp, _, d) => do
    let pfx ← cp.getStr (some d)
    pure (!pathMatches path pfx)
  | none => pure false

/-- `depth.is_none() || depth.unwrap() < bound`: is there a nested struct below the level being rendered? -/
def deeperThan (depth : Option Nat) (bound : Nat) : Bool :=
  match depth with
  | none => true
  | some d => d < bound

/-- `depth.map_or(0, |x| x + 1)` -/
def nextDepth (depth : Option Nat) : Nat :=
  match depth with
  | none => 0
  | some d => d + 1

/-- the shape by which the nested fields of a parameterised `#[parent(..)]` are rendered when no hint is given: that of
    the deriving type -/
def parentChildHint (ctx : ImplContext) (typeHint : TypeHint) : E TypeHint :=
  if typeHint == .unspecified then do
    let named ← ctx.input.namedFields
    pure (if named then TypeHint.struct else TypeHint.tuple)
  else pure typeHint

mutual
/-- `struct_init_block_inner`; returns the tokens and what is left of the cursor -/
def structInitBlockInner : Nat → List FieldContainer → Bool → ImplContext → FieldCtx → E (TS × List FieldContainer)
  | 0, _, _, _, _ => .error (.unsupported "fuel exhausted in struct_init_block_inner")
  | fuel + 1, members, namedFields, ctx, fieldCtx => do
    let typeHint := match fieldCtx with
      | some (_, some crc, _) => crc.typeHint
      | _ => ctx.structAttr.typeHint
    let (frags, rest) ← structInitLoop fuel members namedFields ctx fieldCtx typeHint [] 0
    -- struct-level ghosts of the Into side
    let ghosts ← structGhostLines ctx fieldCtx
    let frags := frags ++ ghosts
    let out ← wrapInit ctx typeHint namedFields (frags ++ updateToks ctx)
    return (out, rest)

/-- the shape by which a flattened member's line is rendered: a `from` conversion reads the member straight from its
    nested struct, so the hint given for that nested struct in `#[child_parents(..)]` applies (the counterpart's own
    hint when there is no entry); the other directions keep the hint of the block being built -/
def childLineHint (ctx : ImplContext) (ca : ChildAttr) (typeHint : TypeHint) : TypeHint :=
  if ctx.kind.isFrom then
    match ctx.input.attrs.childParentsAttr ctx.ty with
    | none => typeHint
    | some cpa =>
      match cpa.childParents.find? (fun cd => cd.fieldPathStr == ca.childPath.strs.getLast?.getD "") with
      | some cd => cd.typeHint
      | none => typeHint
  else typeHint

/-- the `while let Some(..) = members.peek()` loop -/
def structInitLoop : Nat → List FieldContainer → Bool → ImplContext → FieldCtx → TypeHint → TS → Nat → E (TS × List FieldContainer)
  | 0, _, _, _, _, _, _, _ => .error (.unsupported "fuel exhausted in struct_init_block_inner loop")
  | _, [], _, _, _, _, frags, _ => .ok (frags, [])
  | fuel + 1, fc :: rest, namedFields, ctx, fieldCtx, typeHint, frags, idx => do
    let brk ← levelBreak fieldCtx fc.path
    if brk then return (frags, fc :: rest)
    let depth : Option Nat := fieldCtx.map (·.2.2)
    match fc.fieldData with
    | .field f =>
      let attrs := f.attrs
      if fieldSkipped ctx f then
        structInitLoop fuel rest namedFields ctx fieldCtx typeHint frags idx
      else
        match attrs.child ctx.ty with
        | some ca => do
          let (frag, rest') ← renderChildFragment fuel ca.childPath (fc :: rest) ctx depth typeHint
            (fun _ => renderStructLine f ctx (childLineHint ctx ca typeHint) idx none)
          structInitLoop fuel rest' namedFields ctx fieldCtx typeHint (frags ++ frag) (idx + 1)
        | none => do
          let line ← renderStructLine f ctx typeHint idx none
          structInitLoop fuel rest namedFields ctx fieldCtx typeHint (frags ++ line) (idx + 1)
    | .ghostData g =>
      match g.childPath with
      | none => panicAt "expand.rs:struct_init_block_inner:ghost child_path unwrap"
      | some cp => do
        let (frag, rest') ← renderChildFragment fuel cp (fc :: rest) ctx depth typeHint (fun _ => .ok [])
        structInitLoop fuel rest' namedFields ctx fieldCtx typeHint (frags ++ frag) (idx + 1)
    | .parentChildField f pc => do
      let th ← parentChildHint ctx typeHint
      let (frag, rest') ← renderParentChildFragment fuel f pc (fc :: rest) pc.namedFields ctx depth th idx
      structInitLoop fuel rest' namedFields ctx fieldCtx typeHint (frags ++ frag) (idx + 1)

/-- `render_child_fragment`; `line` is the `render_line` closure -/
def renderChildFragment : Nat → ChildPath → List FieldContainer → ImplContext → Option Nat → TypeHint → (Unit → E TS) → E (TS × List FieldContainer)
  | 0, _, _, _, _, _, _ => .error (.unsupported "fuel exhausted in render_child_fragment")
  | fuel + 1, childPath, fields, ctx, depth, typeHint, line =>
    if deeperThan depth (childPath.strs.length - 1) then
      let newDepth := nextDepth depth
      match ctx.kind.cls with
      | .into => do
        match ctx.input.attrs.childParentsAttr ctx.ty with
        | none => panicAt "expand.rs:render_child_fragment:child_parents_attr unwrap"
        | some cpa =>
          let key ← childPath.getStr (some newDepth)
          match cpa.childParents.find? (fun cd => cd.fieldPathStr == key) with
          | none => panicAt "expand.rs:render_child_fragment:child_data unwrap"
          | some cd =>
            let named ← ctx.input.namedFields
            renderChild fuel { ty := cd.ty, typeHint := cd.typeHint } fields named ctx childPath newDepth typeHint
      | .existing => do
        let named ← ctx.input.namedFields
        renderExistingChild fuel fields named ctx childPath newDepth
      | .from_ => do return (← line (), fields.drop 1)
    else do return (← line (), fields.drop 1)

/-- `render_parent_child_fragment`; the line closure is evaluated lazily because it may panic -/
def renderParentChildFragment : Nat → Field → ParentChildField → List FieldContainer → Bool → ImplContext → Option Nat → TypeHint → Nat → E (TS × List FieldContainer)
  | 0, _, _, _, _, _, _, _, _ => .error (.unsupported "fuel exhausted in render_parent_child_fragment")
  | fuel + 1, field, pc, fields, namedFields, ctx, depth, lineHint, idx =>
    if deeperThan depth pc.subPath.length && ctx.kind.isFrom then do
      let newDepth := nextDepth depth
      let ty ← (match depth with
        | some d => match pc.subPath[d]? with
          | some (_, some t) => pure t
          | some (_, none) => panicAt "expand.rs:render_parent_child_fragment:sub_path type unwrap"
          | none => panicAt "expand.rs:render_parent_child_fragment:sub_path index"
        | none => match field.ty with
          | some t => pure t
          | none => panicAt "expand.rs:render_parent_child_fragment:field.ty unwrap")
      let childPath := ChildPath.ofMembers (field.member :: pc.subPath.map (·.1))
      let named ← ctx.input.namedFields
      renderChild fuel { ty := ty, typeHint := ctx.structAttr.typeHint } fields namedFields ctx childPath newDepth
        (if named then .struct else .tuple)
    else do
      let line ← renderStructLine field ctx lineHint idx (some pc)
      .ok (line, fields.drop 1)

/-- `render_child` -/
def renderChild : Nat → ChildRenderContext → List FieldContainer → Bool → ImplContext → ChildPath → Nat → TypeHint → E (TS × List FieldContainer)
  | 0, _, _, _, _, _, _, _ => .error (.unsupported "fuel exhausted in render_child")
  | fuel + 1, childData, fields, namedFields, ctx, childPath, depth, hint => do
    let childName ← (match childPath.path[depth]? with
      | some m => pure m.toTS
      | none => panicAt "expand.rs:render_child:child_path index")
    let (init, rest) ← structInitBlockInner fuel fields namedFields ctx (some (childPath, some childData, depth))
    let named ← ctx.input.namedFields
    let ty := exprPath childData.ty
    let withName := childName ++ [colon] ++ ty ++ init ++ [comma]
    let noName := ty ++ init ++ [comma]
    match named, hint with
    | true, .struct | true, .unspecified => return (withName, rest)
    | true, .tuple => return (noName, rest)
    | false, .tuple | false, .unspecified => return (noName, rest)
    | false, .struct => return (withName, rest)
    | _, .unit => panicAt "expand.rs:render_child:unreachable(15)"

/-- `render_existing_child` -/
def renderExistingChild : Nat → List FieldContainer → Bool → ImplContext → ChildPath → Nat → E (TS × List FieldContainer)
  | 0, _, _, _, _, _ => .error (.unsupported "fuel exhausted in render_existing_child")
  | fuel + 1, fields, namedFields, ctx, childPath, depth => do
    let path ← childPath.getStr (some depth)
    let cd := (ctx.input.attrs.childParentsAttr ctx.ty).bind fun x => x.childParents.find? (fun cd => cd.fieldPathStr == path)
    structInitBlockInner fuel fields namedFields ctx
      (some (childPath, cd.map (fun x => { ty := x.ty, typeHint := x.typeHint }), depth))
end

def noSpaces (s : String) : String := String.ofList (s.toList.filter (· != ' '))

/-- the group key of a member: its full child path, else its own name -/
def fieldPathKey (ctx : ImplContext) (x : Field) : String :=
  match x.attrs.child ctx.ty with
  | some ca => ca.childPath.strs.getLast?.getD ""
  | none => x.memberStr

/-- one nested field of a parameterised `#[parent(..)]` -/
def parentChildGroupStep (x : Field) (st : GroupPaths × List FieldContainer) (pc : ParentChildField) : GroupPaths × List FieldContainer :=
  let r := makeTuple st.1 (x.memberStr ++ noSpaces (display pc.subPathTokens)) (.parentChildField x pc)
  (r.1, st.2 ++ [r.2.1])

/-- one member's contribution to the grouped list: one container per nested field of a parameterised `#[parent]`,
    else one container keyed by the member's child path (or its own name) -/
def fieldGroupStep (ctx : ImplContext) (st : GroupPaths × List FieldContainer) (x : Field) : GroupPaths × List FieldContainer :=
  match (x.attrs.parameterizedParentAttr ctx.ty).bind (·.childFields) with
  | some ps => ps.foldl (parentChildGroupStep x) st
  | none =>
    let r := makeTuple st.1 (fieldPathKey ctx x) (.field x)
    (r.1, st.2 ++ [r.2.1])

/-- a struct-level ghost entry opens a group of its own when its child path is new -/
def ghostPathKey (g : GhostData) : String := match g.childPath with | some c => c.strs.getLast?.getD "" | none => ""

def ghostGroupStep (st : GroupPaths × List FieldContainer) (g : GhostData) : GroupPaths × List FieldContainer :=
  let r := makeTuple st.1 (ghostPathKey g) (.ghostData g)
  (r.1, if r.2.2 then st.2 ++ [r.2.1] else st.2)

/-- the grouped, ordered member list that `struct_init_block` hands to the descent -/
def groupedMembers (input : Struct) (ctx : ImplContext) : List FieldContainer :=
  let st1 := input.fields.foldl (fieldGroupStep ctx) ([("", 0)], [])
  -- struct-level ghosts: only those of the instruction selected for this counterpart and kind
  let st2 := ((input.attrs.ghostsAttr ctx.ty ctx.kind).toList.flatMap (·.ghostData)).foldl ghostGroupStep st1
  sortByGr st2.2

/-- `struct_init_block` -/
def structInitBlock (input : Struct) (ctx : ImplContext) : E TS := do
  if (!ctx.kind.isFrom && ctx.structAttr.typeHint == .unit) || (ctx.kind.isFrom && input.unit) then return []
  let sorted := groupedMembers input ctx
  let fuel := 4 * (sorted.length + 2) * (sorted.length + 8) + 64
  let (out, _) ← structInitBlockInner fuel sorted input.namedFields ctx none
  return out

/-- `variant_destruct_block` -/
def variantDestructBlock (input : Struct) (ctx : ImplContext) : E TS := do
  let visible := input.fields.filter fun x => !ctx.kind.isFrom || (x.attrs.ghost ctx.ty ctx.kind).isNone
  let structCase : Bool := match input.namedFields, ctx.kind.isFrom, ctx.structAttr.typeHint with
    | true, false, _ => true
    | true, _, .struct | true, _, .unspecified => true
    | false, true, .struct => true
    | _, _, _ => false
  let (idents, hint) ← (do
    if structCase then do
      let ids ← visible.foldlM (fun (acc : TS) x => do
        let attr := x.attrs.applicableAttr ctx.kind ctx.fallible ctx.ty
        match attr with
        | some a =>
          if !ctx.kind.isFrom then pure (acc ++ x.member.toTS ++ [comma])
          else pure (acc ++ (← a.getFieldNameOr x.member).toTS ++ [comma])
        | none => pure (acc ++ x.member.toTS ++ [comma])) []
      pure (ids, TypeHint.struct)
    else if ctx.kind.isFrom && ctx.structAttr.typeHint == .unit then pure ([], TypeHint.unit)
    else pure (visible.flatMap (fun x => (fIdent x.idx).toTS ++ [comma]), TypeHint.tuple))
  let idents ← (do
    if ctx.kind.isFrom then
      match input.attrs.ghostsAttr ctx.ty ctx.kind with
      | some ga => ga.ghostData.foldlM (fun (acc : TS) x => do
          let gi ← x.ghostIdent.getIdent
          match gi with
          | .named s => pure (acc ++ [i s, comma])
          | .unnamed n => pure (acc ++ (fIdent n).toTS ++ [comma])) idents
      | none => pure idents
    else pure idents)
  match hint with
  | .struct => return [brace idents]
  | .tuple => return [paren idents]
  | .unit => return []
  | .unspecified => panicAt "expand.rs:variant_destruct_block:unreachable(4)"

/-- `render_enum_line` -/
def renderEnumLine (v : Variant) (ctx : ImplContext) : E TS := do
  let attr := v.attrs.applicableAttr ctx.kind ctx.fallible ctx.ty
  let lit := v.attrs.lit ctx.ty
  let pat := v.attrs.pat ctx.ty
  let var := v.attrs.typeHint ctx.ty
  let src := ctx.srcTy
  let dst := ctx.dstTy
  let ident := v.ident
  let variantStruct : Struct := {
    attrs := { ghostsAttrs := v.attrs.ghostsAttrs }, ident := ident, generics := [],
    fields := v.fields, namedFields := v.namedFields, unit := v.unit }
  let typeHint := match var with | some x => x.typeHint | none => .unspecified
  let newCtx : ImplContext := { ctx with
    input := .struct variantStruct, structAttr := { ctx.structAttr with typeHint := typeHint }, implType := .variant }
  let emptyFields := variantStruct.fields.isEmpty
  let destr ← (do
    if emptyFields && (!newCtx.kind.isFrom || typeHint.maybe .unit) then pure []
    else if emptyFields && newCtx.kind.isFrom && typeHint == .tuple then pure [paren [j '.', p '.']]
    else if emptyFields && newCtx.kind.isFrom && typeHint == .struct then pure [brace [j '.', p '.']]
    else variantDestructBlock variantStruct newCtx)
  let init ← (do
    if (match attr with | some a => a.hasAction | none => false) || (emptyFields && typeHint.maybe .unit) then pure []
    else structInitBlock variantStruct newCtx)
  match attr, lit, pat, ctx.kind.cls with
  | none, none, none, _ =>
    return src ++ cc ++ [i ident] ++ destr ++ fatArrow ++ dst ++ cc ++ [i ident] ++ init ++ [comma]
  | some a, none, none, .from_ => do
    let rightSide ← a.getActionOr (some [i ident]) ctx (dst ++ cc ++ [i ident] ++ init)
    let ident2 ← a.getFieldNameOr (.named ident)
    return src ++ cc ++ ident2.toTS ++ destr ++ fatArrow ++ rightSide ++ [comma]
  | some a, none, none, .into => do
    let rightSide ← a.getStuff (dst ++ cc) (fun x => x.toTS ++ init) ctx (.named ident)
    return src ++ cc ++ [i ident] ++ destr ++ fatArrow ++ rightSide ++ [comma]
  | none, some l, none, .from_ => return l.tokens ++ fatArrow ++ dst ++ cc ++ [i ident] ++ init ++ [comma]
  | none, some l, none, .into => return src ++ cc ++ [i ident] ++ destr ++ fatArrow ++ l.tokens ++ [comma]
  | none, none, some pt, .from_ => return pt.tokens ++ fatArrow ++ dst ++ cc ++ [i ident] ++ init ++ [comma]
  | some a, none, some _, .into => do
    let rightSide ← a.getActionOr none ctx []
    return src ++ cc ++ [i ident] ++ destr ++ fatArrow ++ rightSide ++ [comma]
  | _, _, _, _ => panicAt "expand.rs:render_enum_line:todo"

/-- which variants contribute an arm to a conversion: ghost variants are skipped on the From side, and on the
    Into side when they carry no default -/
def variantContributes (ctx : ImplContext) (v : Variant) : Bool :=
  !(ctx.kind.isFrom && (v.attrs.ghost ctx.ty ctx.kind).isSome) &&
  !(!ctx.kind.isFrom && ghostNoDefault ctx v.attrs)

/-- one iteration of the `while let Some(..) = members.peek()` loop of `enum_init_block_inner` over a variant -/
def enumArmStep (ctx : ImplContext) (acc : TS) (v : Variant) : E TS :=
  if variantContributes ctx v then do return acc ++ (← renderEnumLine v ctx) else pure acc

/-- the `#[ghosts(..)]` entries selected for this counterpart and kind -/
def enumGhostData (input : Enum) (ctx : ImplContext) : List GhostData :=
  match input.attrs.ghostsAttr ctx.ty ctx.kind with
  | some ga => ga.ghostData
  | none => []

/-- the `_ => default` arm and the condition under which `enum_init_block_inner` emits it -/
def defaultArm (input : Enum) (ctx : ImplContext) : TS :=
  match ctx.structAttr.defaultCase with
  | some dc =>
    if (ctx.kind.isFrom && (input.variants.any (fun v => (v.attrs.lit ctx.ty).isSome || (v.attrs.pat ctx.ty).isSome)
          || (input.attrs.ghostsAttr ctx.ty ctx.kind).isSome))
        || (!ctx.kind.isFrom && input.variants.any (fun v => (v.attrs.ghost ctx.ty ctx.kind).isSome)) then
      [i "_"] ++ quoteAction dc none ctx
    else []
  | none => []

/-- `enum_init_block` + `enum_init_block_inner` -/
def enumInitBlock (input : Enum) (ctx : ImplContext) : E TS := do
  let frags ← input.variants.foldlM (enumArmStep ctx) []
  let frags ← (enumGhostData input ctx).foldlM (fun (acc : TS) g => do return acc ++ (← renderEnumGhostLine g ctx)) frags
  return [brace (frags ++ defaultArm input ctx)]

/-- `struct_main_code_block` -/
def structMainCodeBlock (input : Struct) (ctx : ImplContext) : E TS := do
  let init ← structInitBlock input ctx
  match ctx.kind.cls with
  | .from_ => return skel Gen.tmpl_struct_main_code_block 0 [("dst", ctx.dstTy), ("struct_init_block", init)]
  | .into =>
    let dst := if ctx.structAttr.ty.namelessTuple || ctx.hasPostInit then [] else ctx.dstTy
    return skel Gen.tmpl_struct_main_code_block 1 [("dst", dst), ("struct_init_block", init)]
  | .existing => return init

/-- `enum_main_code_block` -/
def enumMainCodeBlock (input : Enum) (ctx : ImplContext) : E TS := do
  let init ← enumInitBlock input ctx
  match ctx.kind.cls with
  | .from_ => return skel Gen.tmpl_enum_main_code_block 0 [("enum_init_block", init)]
  | .into => return skel Gen.tmpl_enum_main_code_block 1 [("enum_init_block", init)]
  | .existing => return init

def quickReturnBlock (qr : TS) (ctx : ImplContext) : TS :=
  if ctx.kind.isIntoExisting then skel Gen.tmpl_main_code_block 0 [("action", quoteAction qr none ctx)]
  else quoteAction qr none ctx

/-- `main_code_block` -/
def mainCodeBlock (ctx : ImplContext) : E TS :=
  match ctx.structAttr.quickReturn with
  | some qr => .ok (quickReturnBlock qr ctx)
  | none => match ctx.input with
    | .struct s => structMainCodeBlock s ctx
    | .enum e => enumMainCodeBlock e ctx

/-- `main_code_block_ok` -/
def mainCodeBlockOk (ctx : ImplContext) : E TS :=
  match ctx.structAttr.quickReturn with
  | some qr =>
    .ok (if ctx.kind.isIntoExisting then skel Gen.tmpl_main_code_block_ok 0 [("action", quoteAction qr none ctx)] else quoteAction qr none ctx)
  | none => do
    let inner ← (match ctx.input with
      | .struct s => structMainCodeBlock s ctx
      | .enum e => enumMainCodeBlock e ctx)
    if ctx.hasPostInit then return inner else return skel Gen.tmpl_main_code_block_ok 1 [("inner", inner)]

/-- `struct_pre_init` -/
def structPreInit (ctx : ImplContext) : Option TS :=
  ctx.structAttr.initData.map fun ds => ds.flatMap fun x =>
    skel Gen.tmpl_struct_pre_init 0 [("a", [i x.ident]), ("b", quoteAction x.action none ctx)]

/-- `render_parent`: the arms of the `(kind, fallible)` match select the translated `quote!` bodies in source order -/
def renderParent (f : Field) (ctx : ImplContext) : E TS :=
  let env := [("member", f.member.toTS)]
  match ctx.kind, ctx.fallible with
  | .ownedIntoExisting, false => .ok (skel Gen.tmpl_render_parent 0 env)
  | .refIntoExisting, false => .ok (skel Gen.tmpl_render_parent 1 env)
  | .ownedInto, false => .ok (skel Gen.tmpl_render_parent 2 env)
  | .refInto, false => .ok (skel Gen.tmpl_render_parent 3 env)
  | .ownedIntoExisting, true => .ok (skel Gen.tmpl_render_parent 4 env)
  | .refIntoExisting, true => .ok (skel Gen.tmpl_render_parent 5 env)
  | .ownedInto, true => .ok (skel Gen.tmpl_render_parent 6 env)
  | .refInto, true => .ok (skel Gen.tmpl_render_parent 7 env)
  | _, _ => panicAt "expand.rs:render_parent:unreachable(5)"

/-- `struct_post_init` -/
def structPostInit (input : DataType) (ctx : ImplContext) : E (Option TS) := do
  let frags ← input.members.foldlM (fun (acc : List TS) m => do
    if !ctx.kind.isFrom && m.attrs.hasParameterlessParentAttr ctx.ty then
      match m with
      | .field f => return acc ++ [← renderParent f ctx]
      | .variant _ => panicAt "expand.rs:struct_post_init:todo"
    else return acc) []
  if frags.isEmpty then return none else return some frags.flatten

/-! ### impl header -/

structure QuoteTraitParams where
  attr : TS
  implAttr : TS
  innerAttr : TS
  dst : TS
  src : TS
  theseGens : TS
  thoseGens : TS
  implGens : TS
  whereClause : TS
  r : TS

/-- a generic parameter of the impl: is it a lifetime, its printed form, followed by a comma? -/
structure IParam where
  isLifetime : Bool
  /-- lifetime name for lifetime params -/
  name : TS
  full : TS
  punct : Bool

/-- `Punctuated::push` -/
def pushParam (ps : List IParam) (x : IParam) : List IParam :=
  match ps.reverse with
  | [] => [x]
  | last :: init => (({ last with punct := true }) :: init).reverse ++ [x]

/-- `impl ToTokens for Generics`: lifetimes first, then the rest -/
def printGenerics (ps : List IParam) : TS :=
  if ps.isEmpty then [] else
  let lts := ps.filter (·.isLifetime)
  let ltToks := lts.flatMap fun x => x.full ++ (if x.punct then [comma] else [])
  let trailing0 := match lts.getLast? with | some l => l.punct | none => true
  let others := ps.filter (!·.isLifetime)
  let (otherToks, _) := others.foldl (fun (st : TS × Bool) x =>
    let pre := if !st.2 then [comma] else []
    (st.1 ++ pre ++ x.full ++ (if x.punct then [comma] else []), true)) ([], trailing0)
  [p '<'] ++ ltToks ++ otherToks ++ [p '>']

def lifetimeTS (n : String) : TS := [j '\'', .ident n]

def joinPlus : List TS → TS
  | [] => []
  | [x] => x
  | x :: xs => x ++ [p '+'] ++ joinPlus xs

/-- lifetimes of the deriving type -/
def theseLifetimes (gens : List GParam) : List TS := (gens.filter (·.kind == .lifetime)).map (·.name)

/-- lifetimes among the generic arguments of the counterpart path -/
def thoseLifetimes (ty : TypePath) : List TS :=
  match ty.generics with
  | some g => g.args.filterMap fun (a, _) => match a with | .lifetime n => some (lifetimeTS n) | .other _ => none
  | none => []

/-- the lifetimes the borrow of a by-reference conversion has to outlive -/
def refLifetimes (input : DataType) (ctx : ImplContext) : List TS :=
  if ctx.kind.isRef then (if ctx.kind.isFrom then theseLifetimes input.generics else thoseLifetimes ctx.structAttr.ty) else []

def o2oParam (refLts : List TS) : IParam :=
  { isLifetime := true, name := lifetimeTS "o2o", full := lifetimeTS "o2o" ++ [colon] ++ joinPlus refLts, punct := false }

/-- the deriving type's parameters as `ImplGenerics` prints them: bounds kept, defaults left off -/
def implFormParams (gens : List GParam) : List IParam :=
  gens.map fun g => { isLifetime := g.kind == .lifetime, name := g.name, full := g.implForm, punct := g.punct }

/-- … and as `TypeGenerics` prints them: the bare names (`'a`, `T`, `N`) -/
def typeFormParams (gens : List GParam) : List IParam :=
  gens.map fun g => { isLifetime := g.kind == .lifetime, name := g.name, full := g.name, punct := g.punct }

/-- the type's parameters plus the counterpart-only lifetimes (`missing_lt` loop of the code, as written) -/
def withMissingLifetimes (params0 : List IParam) (thoseLts : List TS) : List IParam :=
  thoseLts.foldl (fun ps lt =>
    let missing := ps.all fun prm => if prm.isLifetime then !(prm.name == lt) else true
    if missing then pushParam ps { isLifetime := true, name := lt, full := lt, punct := false } else ps) params0

/-- the generic parameter list declared on the impl -/
def implParams (input : DataType) (ctx : ImplContext) : List IParam :=
  let params0 : List IParam := implFormParams input.generics
  let params1 := withMissingLifetimes params0 (thoseLifetimes ctx.structAttr.ty)
  let refLts := refLifetimes input ctx
  if !refLts.isEmpty then pushParam params1 (o2oParam refLts) else params1

/-- `get_quote_trait_params` -/
def getQuoteTraitParams (input : DataType) (ctx : ImplContext) : QuoteTraitParams :=
  let refLts := refLifetimes input ctx
  { attr := ctx.structAttr.fnAttr.getD []
    implAttr := ctx.structAttr.implAttr.getD []
    innerAttr := ctx.structAttr.innerAttr.getD []
    dst := ctx.dstTy
    src := ctx.srcTy
    theseGens := printGenerics (typeFormParams input.generics)
    thoseGens := match ctx.structAttr.ty.generics with | some g => g.toTS | none => []
    implGens := printGenerics (implParams input ctx)
    whereClause := match input.attrs.whereAttr ctx.ty with
      | some w => [i "where"] ++ w.whereClause
      | none => []
    r := if ctx.kind.isRef then (if refLts.isEmpty then [p '&'] else [p '&'] ++ lifetimeTS "o2o") else [] }

/-- `quote_err_ty`: the declared error type, generic arguments included -/
def errTyPath (ctx : ImplContext) : E TS :=
  match ctx.structAttr.errTy with
  | some t => .ok (t.path ++ (match t.generics with | some g => g.toTS | none => []))
  | none => panicAt "expand.rs:quote_try_*_trait:err_ty unwrap"

/-- the hole environment shared by the six skeletons (`QuoteTraitParams` destructured) -/
def QuoteTraitParams.env (q : QuoteTraitParams) : List (String × TS) :=
  [("attr", q.attr), ("impl_attr", q.implAttr), ("inner_attr", q.innerAttr), ("dst", q.dst), ("src", q.src),
   ("these_gens", q.theseGens), ("those_gens", q.thoseGens), ("impl_gens", q.implGens), ("where_clause", q.whereClause), ("r", q.r)]

def quoteFromTrait (q : QuoteTraitParams) (preInit init : TS) : TS :=
  skel Gen.tmpl_quote_from_trait 0 (q.env ++ [("pre_init", preInit), ("init", init)])

def quoteTryFromTrait (q : QuoteTraitParams) (errTy preInit init : TS) : TS :=
  skel Gen.tmpl_quote_try_from_trait 0 (q.env ++ [("err_ty", errTy), ("pre_init", preInit), ("init", init)])

def quoteIntoTrait (q : QuoteTraitParams) (preInit init : TS) (postInit : Option TS) : TS :=
  let env := q.env ++ [("pre_init", preInit), ("init", init), ("post_init", postInit.getD [])]
  let body := match postInit with
    | some _ => skel Gen.tmpl_quote_into_trait 0 env
    | none => skel Gen.tmpl_quote_into_trait 1 env
  skel Gen.tmpl_quote_into_trait 2 (env ++ [("body", body)])

def quoteTryIntoTrait (q : QuoteTraitParams) (errTy preInit init : TS) (postInit : Option TS) : TS :=
  let env := q.env ++ [("err_ty", errTy), ("pre_init", preInit), ("init", init), ("post_init", postInit.getD [])]
  let body := match postInit with
    | some _ => skel Gen.tmpl_quote_try_into_trait 0 env
    | none => skel Gen.tmpl_quote_try_into_trait 1 env
  skel Gen.tmpl_quote_try_into_trait 2 (env ++ [("body", body)])

def quoteIntoExistingTrait (q : QuoteTraitParams) (preInit init post : TS) : TS :=
  skel Gen.tmpl_quote_into_existing_trait 0 (q.env ++ [("pre_init", preInit), ("init", init), ("post_init", post)])

def quoteTryIntoExistingTrait (q : QuoteTraitParams) (errTy preInit init post : TS) : TS :=
  skel Gen.tmpl_quote_try_into_existing_trait 0 (q.env ++ [("err_ty", errTy), ("pre_init", preInit), ("init", init), ("post_init", post)])

/-- the calls for parameterless `#[parent]` members: none for From, none when a quick return stands for the body -/
def postInitOf (input : DataType) (ctx0 : ImplContext) : E (Option TS) :=
  if ctx0.kind.isFrom || ctx0.structAttr.quickReturn.isSome then pure none else structPostInit input ctx0

/-- `quote_trait` -/
def quoteTrait (input : DataType) (ctx0 : ImplContext) : E TS := do
  let preInit := (structPreInit ctx0).getD []
  let postInit ← postInitOf input ctx0
  let ctx := { ctx0 with hasPostInit := postInit.isSome }
  match ctx.kind.cls, ctx.fallible with
  | .from_, false => do
    let init ← mainCodeBlock ctx
    return quoteFromTrait (getQuoteTraitParams input ctx) preInit init
  | .from_, true => do
    let init ← mainCodeBlockOk ctx
    return quoteTryFromTrait (getQuoteTraitParams input ctx) (← errTyPath ctx) preInit init
  | .into, false => do
    let init ← mainCodeBlock ctx
    return quoteIntoTrait (getQuoteTraitParams input ctx) preInit init postInit
  | .into, true => do
    let init ← mainCodeBlockOk ctx
    return quoteTryIntoTrait (getQuoteTraitParams input ctx) (← errTyPath ctx) preInit init postInit
  | .existing, false => do
    let init ← mainCodeBlock ctx
    return quoteIntoExistingTrait (getQuoteTraitParams input ctx) preInit init (postInit.getD [])
  | .existing, true => do
    let init ← mainCodeBlock ctx
    return quoteTryIntoExistingTrait (getQuoteTraitParams input ctx) (← errTyPath ctx) preInit init (postInit.getD [])

/-- the twelve passes of `data_type_impl`, in order -/
def implPasses : List (Kind × Bool) := [
  (.fromOwned, false), (.fromOwned, true), (.fromRef, false), (.fromRef, true),
  (.ownedInto, false), (.ownedInto, true), (.refInto, false), (.refInto, true),
  (.ownedIntoExisting, false), (.ownedIntoExisting, true), (.refIntoExisting, false), (.refIntoExisting, true)]

def implContexts (input : DataType) : List ImplContext :=
  let ty : TS := [i input.ident]
  let implType := match input with | .struct _ => ImplType.struct | .enum _ => .enum
  implPasses.flatMap fun (k, fallible) =>
    (input.attrs.iterForKindCore k fallible).map fun sa =>
      { input := input, implType := implType, structAttr := sa, kind := k,
        dstTy := if k.isFrom then ty else sa.ty.path,
        srcTy := if k.isFrom then sa.ty.path else ty,
        hasPostInit := false, fallible := fallible }

/-- `data_type_impl`: one impl per context -/
def dataTypeImpls (input : DataType) : E (List TS) :=
  (implContexts input).mapM (quoteTrait input)

inductive Outcome
  | ok (ts : TS)
  | err (msgs : List String)
  | libErr
  | panic (site : String)
  | unsupported (why : String)
  deriving Repr, Inhabited

def ofPErr : PErr → Outcome
  | .lib => .libErr
  | .o2o m => .err [m]
  | .unsupported w => .unsupported w
  | .panic s => .panic s

/-- `derive` -/
def derive (b : Back) (node : RawInput) : Outcome :=
  let run (dt : E DataType) : Outcome :=
    match dt with
    | .error e => ofPErr e
    | .ok input =>
      match validateAll input with
      | [] => match dataTypeImpls input with
        | .ok impls => .ok impls.flatten
        | .error e => ofPErr e
      | errs => .err ("Cannot expand o2o macro" :: errs)
  match node.body with
  | .struct data => run ((Struct.fromSyn b node data).map DataType.struct)
  | .enum vs => run ((Enum.fromSyn b node vs).map DataType.enum)
  | .union => .err ["#[derive(o2o)] only supports structs and enums."]

end O2o
