/-
Model of o2o-impl/src/ast.rs plus the attribute-collecting halves of attr.rs
(`get_data_type_attrs`, `get_member_attrs`, `add_as_type_attrs`), and the decoder of the
line-protocol encoding of a `DeriveInput`.
-/
import O2oModel.Attr
namespace O2o

inductive AttrShape
  | path
  | list (d : Delim) (ts : TS)
  | nameValue (ts : TS)
  deriving Repr, Inhabited

structure RawAttr where
  path : TS
  shape : AttrShape
  deriving Repr, Inhabited

structure RawField where
  attrs : List RawAttr
  name : Option String
  ty : TS
  /-- the path of a `Type::Path` field type (what `Field::ty` keeps) -/
  tyPath : Option TS
  deriving Repr, Inhabited

inductive FieldsKind | named | unnamed | unit
  deriving DecidableEq, Repr, Inhabited

structure RawFields where
  kind : FieldsKind
  fields : List RawField
  deriving Repr, Inhabited

structure RawVariant where
  attrs : List RawAttr
  name : String
  fields : RawFields
  deriving Repr, Inhabited

inductive GKind | lifetime | type | const
  deriving DecidableEq, Repr, Inhabited

structure GParam where
  kind : GKind
  name : TS
  /-- the parameter as syn prints it (bounds, defaults included) -/
  full : TS
  /-- followed by a comma in the `Punctuated` -/
  punct : Bool
  /-- the parameter as `ImplGenerics` prints it (bounds kept, defaults left off) -/
  implForm : TS := []
  deriving Repr, Inhabited

inductive RawBody
  | struct (f : RawFields)
  | enum (vs : List RawVariant)
  | union
  deriving Repr, Inhabited

structure RawInput where
  name : String
  generics : List GParam
  attrs : List RawAttr
  body : RawBody
  deriving Repr, Inhabited

/-! ### decoder -/

def decodeAttr : Tok → Option RawAttr
  | .group .paren [.group .paren path, .ident "P"] => some { path := path, shape := .path }
  | .group .paren [.group .paren path, .ident "LP", .group .paren ts] => some { path := path, shape := .list .paren ts }
  | .group .paren [.group .paren path, .ident "LB", .group .paren ts] => some { path := path, shape := .list .brace ts }
  | .group .paren [.group .paren path, .ident "LK", .group .paren ts] => some { path := path, shape := .list .bracket ts }
  | .group .paren [.group .paren path, .ident "NV", .group .paren ts] => some { path := path, shape := .nameValue ts }
  | _ => none

def decodeAttrs : Tok → Option (List RawAttr)
  | .group .paren ts => ts.mapM decodeAttr
  | _ => none

def decodeField : Tok → Option RawField
  | .group .paren [attrs, nm, .group .paren ty, .ident "some", .group .paren tp] => do
    let a ← decodeAttrs attrs
    let n ← (match nm with | .ident s => some (some s) | .punct '_' _ => some none | _ => none)
    some { attrs := a, name := n, ty := ty, tyPath := some tp }
  | .group .paren [attrs, nm, .group .paren ty, .ident "none"] => do
    let a ← decodeAttrs attrs
    let n ← (match nm with | .ident s => some (some s) | .punct '_' _ => some none | _ => none)
    some { attrs := a, name := n, ty := ty, tyPath := none }
  | _ => none

def decodeFields : Tok → Tok → Option RawFields
  | .ident k, .group .paren fs => do
    let kind ← (match k with | "named" => some FieldsKind.named | "unnamed" => some .unnamed | "unit" => some .unit | _ => none)
    let fields ← fs.mapM decodeField
    some { kind := kind, fields := fields }
  | _, _ => none

def decodeVariant : Tok → Option RawVariant
  | .group .paren [attrs, .ident name, k, fs] => do
    let a ← decodeAttrs attrs
    let f ← decodeFields k fs
    some { attrs := a, name := name, fields := f }
  | _ => none

def decodeGParam : Tok → Option GParam
  | .group .paren [.ident k, .group .paren name, .group .paren full, .ident pn, .group .paren implForm] => do
    let kind ← (match k with | "lt" => some GKind.lifetime | "ty" => some .type | "const" => some .const | _ => none)
    some { kind := kind, name := name, full := full, punct := pn == "y", implForm := implForm }
  | _ => none

def decodeInput : TS → Option RawInput
  | [.ident "struct", .ident name, .group .paren gens, attrs, k, fs] => do
    let g ← gens.mapM decodeGParam
    let a ← decodeAttrs attrs
    let f ← decodeFields k fs
    some { name := name, generics := g, attrs := a, body := .struct f }
  | [.ident "enum", .ident name, .group .paren gens, attrs, .group .paren vs] => do
    let g ← gens.mapM decodeGParam
    let a ← decodeAttrs attrs
    let v ← vs.mapM decodeVariant
    some { name := name, generics := g, attrs := a, body := .enum v }
  | [.ident "union", .ident name, .group .paren gens, attrs] => do
    let g ← gens.mapM decodeGParam
    let a ← decodeAttrs attrs
    some { name := name, generics := g, attrs := a, body := .union }
  | _ => none

/-! ### attribute collection -/

section
variable (b : Back)

def RawAttr.ident? (a : RawAttr) : Option String :=
  match a.path with
  | [.ident s] => some s
  | _ => none

/-- the tokens handed to the instruction parser for a bare `#[instr ...]`
    (cfg-split code: `OptionalParenthesizedTokenStream` under syn1, `Meta` match under syn2) -/
def bareAttrTokens (a : RawAttr) : Except PErr TS :=
  match b, a.shape with
  | _, .path => .ok []
  | _, .list .paren ts => .ok ts
  | .syn1, .list _ _ => .error .lib      -- parse2: unexpected token
  | .syn2, .list _ _ => .error .lib      -- "unexpected token" (explicit delimiter check)
  | .syn1, .nameValue _ => .error .lib   -- parse2: unexpected token `=`
  | .syn2, .nameValue _ => .error .lib   -- "#[name = \"Value\"] syntax is not supported."

/-- `Attribute::parse_args_with`: the argument tokens of `#[o2o ...]` -/
def o2oArgTokens (a : RawAttr) : Except PErr TS :=
  match a.shape with
  | .list _ ts => .ok ts
  | _ => .error .lib

def liftE {α} (e : Except PErr α) : P α :=
  match e with
  | .ok a => pure a
  | .error err => throw err

/-- one element of `#[o2o(a(..), b, ..)]`: `Ident` then `OptionalParenthesizedTokenStream` -/
def o2oElem {α} (parseInstr : String → TS → Except PErr α) : P α := do
  let instr ← parseIdent b
  let content ← (do
    if (← peekGroup .paren) then do
      let c ← enterGroup .paren
      withContent c takeAll
    else pure [])
  liftE (parseInstr instr content)

structure DTAcc where
  instrs : List DataTypeInstruction := []
  bark : Bool := true

def collectDataTypeInstrs : List RawAttr → DTAcc → Except PErr DTAcc
  | [], acc => .ok acc
  | x :: rest, acc =>
    match x.ident? with
    | some "doc" => collectDataTypeInstrs rest acc
    | some "o2o" => do
      let ts ← o2oArgTokens x
      let newInstrs ← parse2 (parseTerminated (o2oElem b fun instr c => parseDataTypeInstruction b instr c true true)) ts
      let bark := if newInstrs.any (fun i => match i with | .allowUnknown => true | _ => false) then false else acc.bark
      collectDataTypeInstrs rest { instrs := acc.instrs ++ newInstrs, bark := bark }
    | some instr => do
      let ts ← bareAttrTokens b x
      let i ← parseDataTypeInstruction b instr ts false acc.bark
      collectDataTypeInstrs rest { acc with instrs := acc.instrs ++ [i] }
    | none => collectDataTypeInstrs rest acc

/-- key of `trait_attrs_to_repeat : HashMap<(ApplicableTo, bool), TraitAttr>`; only insert / get / remove are used -/
abbrev RepeatMap := List ((Appl × Bool) × TraitAttr)

def RepeatMap.get? (m : RepeatMap) (k : Appl × Bool) : Option TraitAttr := (m.find? (·.1 == k)).map (·.2)
def RepeatMap.remove (m : RepeatMap) (k : Appl × Bool) : RepeatMap := m.filter (·.1 != k)
def RepeatMap.insert (m : RepeatMap) (k : Appl × Bool) (v : TraitAttr) : RepeatMap := (k, v) :: m.remove k

def assembleDataTypeAttrs : List DataTypeInstruction → RepeatMap → DataTypeAttrs → Except PErr DataTypeAttrs
  | [], _, attrs => .ok attrs
  | instr :: rest, m, attrs =>
    match instr with
    | .map ta =>
      let k := (ta.appl, ta.fallible)
      let m := if ta.core.stopRepeat then m.remove k else m
      let toRepeat := m.get? k
      if ta.core.repeat_.isSome then
        if toRepeat.isSome && !ta.core.stopRepeat then
          .error (.o2o "Previous repeat() instruction must be terminated with 'stop_repeat'")
        else assembleDataTypeAttrs rest (m.insert k ta) { attrs with attrs := attrs.attrs ++ [ta] }
      else match toRepeat with
        | some r => do
          let core ← ta.core.merge r.core
          assembleDataTypeAttrs rest m { attrs with attrs := attrs.attrs ++ [{ ta with core := core }] }
        | none => assembleDataTypeAttrs rest m { attrs with attrs := attrs.attrs ++ [ta] }
    | .ghosts a => assembleDataTypeAttrs rest m { attrs with ghostsAttrs := attrs.ghostsAttrs ++ [a] }
    | .where_ a => assembleDataTypeAttrs rest m { attrs with whereAttrs := attrs.whereAttrs ++ [a] }
    | .childParents a => assembleDataTypeAttrs rest m { attrs with childParentsAttrs := attrs.childParentsAttrs ++ [a] }
    | .allowUnknown => assembleDataTypeAttrs rest m attrs
    | .unrecognized => assembleDataTypeAttrs rest m attrs
    | .err e => assembleDataTypeAttrs rest m { attrs with errorInstrs := attrs.errorInstrs ++ [e] }

/-- `get_data_type_attrs` -/
def getDataTypeAttrs (input : List RawAttr) : Except PErr (DataTypeAttrs × Bool) := do
  let acc ← collectDataTypeInstrs b input {}
  let attrs ← assembleDataTypeAttrs acc.instrs [] {}
  return (attrs, acc.bark)

def collectMemberInstrs (bark : Bool) : List RawAttr → List MemberInstruction → Except PErr (List MemberInstruction)
  | [], acc => .ok acc
  | x :: rest, acc =>
    match x.ident? with
    | some "doc" => collectMemberInstrs bark rest acc
    | some "o2o" => do
      let ts ← o2oArgTokens x
      let newInstrs ← parse2 (parseTerminated (o2oElem b fun instr c => parseMemberInstruction b instr c true true)) ts
      collectMemberInstrs bark rest (acc ++ newInstrs)
    | some instr => do
      let ts ← bareAttrTokens b x
      let i ← parseMemberInstruction b instr ts false bark
      collectMemberInstrs bark rest (acc ++ [i])
    | none => collectMemberInstrs bark rest acc

/-- `add_as_type_attrs` -/
def addAsTypeAttrs (fieldTy : TS) (attr : AsAttr) : List MemberAttr :=
  [ { attr := { containerTy := attr.containerTy, member := attr.member, action := some ([p '~', .ident "as"] ++ fieldTy) },
      fallible := false, originalInstr := "as_type", appl := [false, false, true, true, false, false] },
    { attr := { containerTy := attr.containerTy, member := attr.member, action := some ([p '~', .ident "as"] ++ attr.tokens) },
      fallible := false, originalInstr := "as_type", appl := [true, true, false, false, true, true] } ]

/-- the assembling loop of `get_member_attrs`; `fieldTy = none` for a variant -/
def assembleMemberAttrs (fieldTy : Option TS) : List MemberInstruction → MemberAttrs → Except PErr MemberAttrs
  | [], attrs => .ok attrs
  | instr :: rest, attrs =>
    match instr with
    | .map a => assembleMemberAttrs fieldTy rest { attrs with attrs := attrs.attrs ++ [a] }
    | .child a => assembleMemberAttrs fieldTy rest { attrs with childAttrs := attrs.childAttrs ++ [a] }
    | .ghost a => assembleMemberAttrs fieldTy rest { attrs with ghostAttrs := attrs.ghostAttrs ++ [a] }
    | .ghosts a => assembleMemberAttrs fieldTy rest { attrs with ghostsAttrs := attrs.ghostsAttrs ++ [a] }
    | .parent a => assembleMemberAttrs fieldTy rest { attrs with parentAttrs := attrs.parentAttrs ++ [a] }
    | .as_ a =>
      match fieldTy with
      | some ty => assembleMemberAttrs fieldTy rest { attrs with attrs := attrs.attrs ++ addAsTypeAttrs ty a }
      | none => .error (.o2o "Member instruction 'as_type' is not applicable to enum variants.")
    | .lit a => assembleMemberAttrs fieldTy rest { attrs with litAttrs := attrs.litAttrs ++ [a] }
    | .pat a => assembleMemberAttrs fieldTy rest { attrs with patAttrs := attrs.patAttrs ++ [a] }
    | .repeat_ a => assembleMemberAttrs fieldTy rest { attrs with repeat_ := some a }
    | .skipRepeat => assembleMemberAttrs fieldTy rest { attrs with skipRepeat := true }
    | .stopRepeat => assembleMemberAttrs fieldTy rest { attrs with stopRepeat := true }
    | .variantTypeHint a => assembleMemberAttrs fieldTy rest { attrs with typeHintAttrs := attrs.typeHintAttrs ++ [a] }
    | .unrecognized => assembleMemberAttrs fieldTy rest attrs
    | .err e => assembleMemberAttrs fieldTy rest { attrs with errorInstrs := attrs.errorInstrs ++ [e] }

/-- `get_member_attrs` -/
def getMemberAttrs (input : List RawAttr) (fieldTy : Option TS) (bark : Bool) : Except PErr MemberAttrs := do
  let instrs ← collectMemberInstrs b bark input []
  assembleMemberAttrs fieldTy instrs {}

/-! ### ast.rs -/

structure Field where
  attrs : MemberAttrs
  idx : Nat
  member : Member
  memberStr : String
  ty : Option TS
  deriving Repr, Inhabited

structure Context where
  variantAttrsToRepeat : Option MemberAttrs := none
  fieldAttrsToRepeat : Option (MemberAttrs × Bool) := none
  deriving Inhabited

def repeatNotTerminated : String := "Previous #[repeat] instruction must be terminated with #[stop_repeat]"

/-- `Field::from_syn` -/
def Field.fromSyn (idx : Nat) (node : RawField) (bark : Bool) : Except PErr Field := do
  let member := match node.name with
    | some n => Member.named n
    | none => Member.unnamed idx
  let attrs ← getMemberAttrs b node.attrs (some node.ty) bark
  return { attrs := attrs, idx := idx, member := member, memberStr := member.str, ty := node.tyPath }

/-- `Field::multiple_from_syn`: the closure body folded over the fields with the context threaded -/
def Field.multipleFromSyn (bark : Bool) : List RawField → Nat → Context → List Field → Except PErr (List Field × Context)
  | [], _, ctx, acc => .ok (acc.reverse, ctx)
  | node :: rest, i, ctx, acc => do
    let field ← Field.fromSyn b i node bark
    let ctx := if field.attrs.stopRepeat then { ctx with fieldAttrsToRepeat := none } else ctx
    match field.attrs.repeat_ with
    | some r =>
      if ctx.fieldAttrsToRepeat.isSome && !field.attrs.stopRepeat then .error (.o2o repeatNotTerminated)
      else Field.multipleFromSyn bark rest (i + 1) { ctx with fieldAttrsToRepeat := some (field.attrs, r.permeate) } (field :: acc)
    | none =>
      match ctx.fieldAttrsToRepeat with
      | some (toRepeat, _) =>
        Field.multipleFromSyn bark rest (i + 1) ctx ({ field with attrs := field.attrs.merge toRepeat } :: acc)
      | none => Field.multipleFromSyn bark rest (i + 1) ctx (field :: acc)

structure Struct where
  attrs : DataTypeAttrs
  ident : String
  generics : List GParam
  fields : List Field
  namedFields : Bool
  unit : Bool
  deriving Repr, Inhabited

/-- `Struct::from_syn` -/
def Struct.fromSyn (node : RawInput) (data : RawFields) : Except PErr Struct := do
  let (attrs, bark) ← getDataTypeAttrs b node.attrs
  let (fields, _) ← Field.multipleFromSyn b bark data.fields 0 {} []
  return { attrs := attrs, ident := node.name, generics := node.generics, fields := fields,
           namedFields := data.kind == .named, unit := data.kind == .unit }

structure Variant where
  attrs : MemberAttrs
  ident : String
  fields : List Field
  namedFields : Bool
  unit : Bool
  deriving Repr, Inhabited

/-- `Variant::from_syn` -/
def Variant.fromSyn (ctx : Context) (v : RawVariant) (bark : Bool) : Except PErr (Variant × Context) := do
  let (fields, ctx) ← Field.multipleFromSyn b bark v.fields.fields 0 ctx []
  let attrs ← getMemberAttrs b v.attrs none bark
  let ctx := match ctx.fieldAttrsToRepeat with
    | some (_, permeating) => if !permeating then { ctx with fieldAttrsToRepeat := none } else ctx
    | none => ctx
  return ({ attrs := attrs, ident := v.name, fields := fields,
            namedFields := v.fields.kind == .named, unit := v.fields.kind == .unit }, ctx)

/-- `Variant::multiple_from_syn` -/
def Variant.multipleFromSyn (bark : Bool) : List RawVariant → Context → List Variant → Except PErr (List Variant)
  | [], _, acc => .ok acc.reverse
  | v :: rest, ctx, acc => do
    let (variant, ctx) ← Variant.fromSyn b ctx v bark
    let ctx := if variant.attrs.stopRepeat then { ctx with variantAttrsToRepeat := none } else ctx
    if variant.attrs.repeat_.isSome then
      if ctx.variantAttrsToRepeat.isSome && !variant.attrs.stopRepeat then .error (.o2o repeatNotTerminated)
      else Variant.multipleFromSyn bark rest { ctx with variantAttrsToRepeat := some variant.attrs } (variant :: acc)
    else match ctx.variantAttrsToRepeat with
      | some toRepeat => Variant.multipleFromSyn bark rest ctx ({ variant with attrs := variant.attrs.merge toRepeat } :: acc)
      | none => Variant.multipleFromSyn bark rest ctx (variant :: acc)

structure Enum where
  attrs : DataTypeAttrs
  ident : String
  generics : List GParam
  variants : List Variant
  deriving Repr, Inhabited

/-- `Enum::from_syn` -/
def Enum.fromSyn (node : RawInput) (vs : List RawVariant) : Except PErr Enum := do
  let (attrs, bark) ← getDataTypeAttrs b node.attrs
  let variants ← Variant.multipleFromSyn b bark vs {} []
  return { attrs := attrs, ident := node.name, generics := node.generics, variants := variants }

end

inductive DataType
  | struct (s : Struct)
  | enum (e : Enum)
  deriving Repr, Inhabited

def DataType.ident : DataType → String
  | .struct s => s.ident
  | .enum e => e.ident

def DataType.attrs : DataType → DataTypeAttrs
  | .struct s => s.attrs
  | .enum e => e.attrs

def DataType.generics : DataType → List GParam
  | .struct s => s.generics
  | .enum e => e.generics

/-- `DataType::named_fields` (panics in the enum context) -/
def DataType.namedFields : DataType → Except PErr Bool
  | .struct s => .ok s.namedFields
  | .enum _ => .error (.panic "ast.rs:DataType::named_fields:panic")

inductive DataTypeMember
  | field (f : Field)
  | variant (v : Variant)
  deriving Repr, Inhabited

def DataType.members : DataType → List DataTypeMember
  | .struct s => s.fields.map .field
  | .enum e => e.variants.map .variant

def DataTypeMember.attrs : DataTypeMember → MemberAttrs
  | .field f => f.attrs
  | .variant v => v.attrs

end O2o
