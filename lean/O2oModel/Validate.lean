/-
Model of o2o-impl/src/validate.rs. Diagnostics are kept in first-reported order and
de-duplicated by message text (the `Errors` collection of the code); spans are not modelled.
-/
import O2oModel.Ast
namespace O2o

abbrev Errors := List String

/-- `Errors::insert` -/
def Errors.insert (es : Errors) (m : String) : Errors := if es.contains m then es else es ++ [m]

def offPostfix (own : Bool) : String := if !own then " To turn this message off, use #[o2o(allow_unknown)]" else ""

/-- `validate_error_instrs` -/
def validateErrorInstrs (isEnum : Bool) (instrs : List ErrInstr) (errors : Errors) : Errors :=
  instrs.foldl (fun es e =>
    match e with
    | .misnamed instr guess own =>
      if isEnum && instr == "child" then es.insert ("Member instruction '" ++ instr ++ "' is not applicable to enums." ++ offPostfix own)
      else es.insert ("Perhaps you meant '" ++ guess ++ "'?" ++ offPostfix own)
    | .misplaced instr own =>
      if isEnum && (instr == "parent" || instr == "as_type") then es.insert ("Member instruction '" ++ instr ++ "' is not applicable to enums." ++ offPostfix own)
      else es.insert ("Member instruction '" ++ instr ++ "' should be used on a member." ++ offPostfix own)
    | .unrecognizedWithError instr => es.insert ("Struct instruction '" ++ instr ++ "' is not supported.")) errors

/-- `validate_member_error_instrs` -/
def validateMemberErrorInstrs (isEnum : Bool) (instrs : List ErrInstr) (errors : Errors) : Errors :=
  instrs.foldl (fun es e =>
    match e with
    | .misnamed instr guess own =>
      if isEnum && instr == "children" then es.insert ("Struct instruction '" ++ instr ++ "' is not applicable to enums." ++ offPostfix own)
      else es.insert ("Perhaps you meant '" ++ guess ++ "'?" ++ offPostfix own)
    | .misplaced instr own => es.insert ("Struct instruction '" ++ instr ++ "' should be used on a struct." ++ offPostfix own)
    | .unrecognizedWithError instr => es.insert ("Member instruction '" ++ instr ++ "' is not supported.")) errors

/-- `validate_struct_attrs` -/
def validateStructAttrs (attrs : List TraitAttrCore) (fallible : Bool) (errors : Errors) : Errors :=
  (attrs.foldl (fun (st : List TypePath × Errors) attr =>
    let (seen, es) := st
    let es := if seen.contains attr.ty then es.insert "Ident here must be unique." else es
    let es := if fallible && attr.errTy.isNone then es.insert "Error type should be specified for fallible instruction." else es
    let es := if !fallible && attr.errTy.isSome then es.insert "Error type should not be specified for infallible instruction." else es
    (attr.ty :: seen, es)) ([], errors)).2

def noMatch (tp : TypePath) : String := "Type '" ++ tp.pathStr ++ "' doesn't match any type specified in trait instructions."

/-- the shared "dedicated instruction" loop: unknown type, duplicate dedication -/
def dedicatedLoop (tps : List TypePath) (typePaths : List TypePath) (dupMsg : Option (TypePath → String)) (errors : Errors) : Errors :=
  (tps.foldl (fun (st : List TypePath × Errors) tp =>
    let (seen, es) := st
    let es := if !typePaths.contains tp then es.insert (noMatch tp) else es
    match dupMsg with
    | some f => (tp :: seen, if seen.contains tp then es.insert (f tp) else es)
    | none => (seen, es)) ([], errors)).2

/-- `validate_ghost_attrs` -/
def validateGhostAttrs (k : Kind) (ghostAttrs : List GhostsAttr) (typePaths : List TypePath) (errors : Errors) : Errors :=
  let es := if ((ghostAttrs.filter fun x => x.appl.get k && x.attr.containerTy.isNone).length > 1)
    then errors.insert "There can be at most one default #[ghosts(...)] instruction." else errors
  dedicatedLoop ((ghostAttrs.filter fun x => x.appl.get k && x.attr.containerTy.isSome).filterMap (·.attr.containerTy)) typePaths
    (some fun tp => "Dedicated #[ghosts(...)] instruction for type " ++ tp.pathStr ++ " is already defined.") es

/-- `validate_child_parents_attrs` -/
def validateChildParentsAttrs (cas : List ChildParentsAttr) (typePaths : List TypePath) (errors : Errors) : Errors :=
  let es := if ((cas.filter fun x => x.containerTy.isNone).length > 1)
    then errors.insert "There can be at most one default #[child_parents(...)] instruction." else errors
  (cas.foldl (fun (st : List TypePath × Errors) ca =>
    let (seen, es) := st
    let (seen, es) := match ca.containerTy with
      | some tp =>
        let es := if !typePaths.contains tp then es.insert (noMatch tp) else es
        (tp :: seen, if seen.contains tp then es.insert ("Dedicated #[child_parents(...)] instruction for type " ++ tp.pathStr ++ " is already defined.") else es)
      | none => (seen, es)
    let es := (ca.childParents.foldl (fun (st : List String × Errors) cd =>
      let es1 := if st.1.contains cd.fieldPathStr then st.2.insert "Ident here must be unique." else st.2
      let es2 := if cd.typeHint == .unit
        then es1.insert "Type hint 'as Unit' is not supported in #[child_parents(...)]: members are flattened into the nested struct."
        else es1
      (cd.fieldPathStr :: st.1, es2)) ([], es)).2
    (seen, es)) ([], es)).2

/-- `validate_where_attrs` -/
def validateWhereAttrs (was : List WhereAttr) (typePaths : List TypePath) (errors : Errors) : Errors :=
  let es := if ((was.filter fun x => x.containerTy.isNone).length > 1)
    then errors.insert "There can be at most one default #[where_clause(...)] instruction." else errors
  dedicatedLoop (was.filterMap (·.containerTy)) typePaths
    (some fun tp => "Dedicated #[where_clause(...)] instruction for type " ++ tp.pathStr ++ " is already defined.") es

/-- `bark_at_member_attr` -/
def barkAtMemberAttr (n : Nat) (instrName : String) (errors : Errors) : Errors :=
  if n > 0 then errors.insert ("Instruction #[" ++ instrName ++ "(...)] is not supported for this member.") else errors

/-- `validate_dedicated_member_attrs` -/
def validateDedicatedMemberAttrs (ctys : List (Option TypePath)) (instrName : Option String) (typePaths : List TypePath) (errors : Errors) : Errors :=
  let es := match instrName with
    | some n => if (ctys.filter (·.isNone)).length > 1
        then errors.insert ("There can be at most one default #[" ++ n ++ "(...)] instruction for a given member.") else errors
    | none => errors
  dedicatedLoop (ctys.filterMap id) typePaths
    (instrName.map fun n tp => "Dedicated #[" ++ n ++ "(...)] instruction for type " ++ tp.pathStr ++ " is already defined.") es

/-- the diagnostic for a positional nested field that no instruction names for the counterpart -/
def nestedNameMsg (f : ParentChildField) (attr : TraitAttrCore) : String :=
  let s := f.thisMember.str
  "Member " ++ s ++ " should have an instruction that specifies corresponding field name of type " ++ attr.ty.pathStr ++
    ", e.g. #[parent(" ++ (if s == "0" then "" else "..., ") ++ "[map(field_name)] " ++ s ++ ", ...)]"

/-- the `#[parent(..)]` list in force for a counterpart: the one dedicated to it, else the default one -/
def parentInForce (parentAttrs : List ParentAttr) (ty : TypePath) : Option ParentAttr :=
  (parentAttrs.find? fun p => p.childFields.isSome && (match p.containerTy with | some t => t == ty | none => false))
    <|> (parentAttrs.find? fun p => p.childFields.isSome && p.containerTy.isNone)

/-- the shape a variant is written in for a counterpart: its own `#[type_hint(..)]`, whatever the enum-level instruction
    says (what `render_enum_line` hands to the variant's body) -/
def variantHintFor (v : Variant) (x : TraitAttrCore) : TypeHint :=
  ((v.attrs.typeHint x.ty).map (·.typeHint)).getD .unspecified

/-- a positional nested field needs, for an Into conversion to a struct-shaped counterpart, an instruction of that kind
    naming the counterpart's field (fix 2814c57) -/
def nestedNamePass (namedRootStruct : Bool) (parentAttrs : List ParentAttr) (es : Errors) (x : TraitAttrCore × Kind × TypeHint) : Errors :=
  let structShaped := x.2.2 == .struct || (x.2.2 == .unspecified && namedRootStruct)
  match structShaped, (parentInForce parentAttrs x.1.ty).bind (·.childFields) with
  | true, some fields =>
    (fields.filter fun f => !f.namedFields && (match f.getForKind x.2.1 with | some a => a.thatMember.isNone | none => true)).foldl
      (fun es f => es.insert (nestedNameMsg f x.1)) es
  | _, _ => es

/-- `validate_parent_attrs` -/
def validateParentAttrs (namedRootStruct : Bool) (writtenAs : List (TraitAttrCore × Kind × TypeHint)) (parentAttrs : List ParentAttr) (byKind : List (TraitAttrCore × Kind)) (errors : Errors) : Errors :=
  let errors := (writtenAs.filter fun x => !x.2.1.isFrom && x.1.quickReturn.isNone).foldl (nestedNamePass namedRootStruct parentAttrs) errors
  parentAttrs.foldl (fun es pa =>
    let applies (x : TraitAttrCore) := pa.containerTy.isNone || isSomeEq pa.containerTy x.ty
    let es := (byKind.filter fun (x, k) => !k.isFrom && applies x).foldl (fun es (attr, _) =>
      match pa.childFields with
      | some fields => fields.foldl (fun es f =>
          if (attr.typeHint == .struct || namedRootStruct) && !f.namedFields && f.attrs.isEmpty then
            let s := f.thisMember.str
            es.insert ("Member " ++ s ++ " should have an instruction that specifies corresponding field name of type " ++ attr.ty.pathStr ++
              ", e.g. #[parent(" ++ (if s == "0" then "" else "..., ") ++ "[map(field_name)] " ++ s ++ ", ...)]")
          else es) es
      | none => es) es
    (byKind.filter fun (x, k) => k.isFrom && applies x).foldl (fun es _ =>
      match pa.childFields with
      | some fields => fields.foldl (fun es f =>
          f.subPath.foldl (fun es i =>
            if i.2.isNone then es.insert ("Field '" ++ i.1.str ++ "' should have type here, e.g. '" ++ i.1.str ++ ": SomeStruct'") else es) es) es
      | none => es) es) errors

/-- `unique_in_order` -/
def uniqueInOrder (tps : List TypePath) : List TypePath :=
  tps.foldl (fun acc tp => if acc.contains tp then acc else acc ++ [tp]) []

/-- `check_child_errors` -/
def checkChildPathErrors (childPath : ChildPath) (structAttrs : DataTypeAttrs) (tp : TypePath) (errors : Errors) : Errors :=
  let childrenAttr := structAttrs.childParentsAttr tp
  childPath.strs.foldl (fun es path =>
    match childrenAttr with
    | some ca =>
      if !ca.childParents.any (fun x => x.fieldPathStr == path) then
        es.insert ("Missing '" ++ path ++ ": [Type Path]' instruction for type " ++ tp.pathStr)
      else es
    | none => es.insert ("Missing #[child_parents(...)] instruction for " ++ tp.pathStr)) errors

/-- `check_child_errors` -/
def checkChildErrors (childAttr : ChildAttr) (structAttrs : DataTypeAttrs) (tp : TypePath) (errors : Errors) : Errors :=
  checkChildPathErrors childAttr.childPath structAttrs tp errors

/-- a struct-level ghost addressed to a nested struct (`path@name: ..`) needs that struct's type, for the Into conversions -/
def ghostChildPass (dta : DataTypeAttrs) (es : Errors) (x : TraitAttrCore × Kind) : Errors :=
  if !x.2.isFrom && !x.2.isIntoExisting then
    match dta.ghostsAttr x.1.ty x.2 with
    | some ga => (ga.ghostData.filterMap (·.childPath)).foldl (fun es cp => checkChildPathErrors cp dta x.1.ty es) es
    | none => es
  else es

/-- an Into conversion of a struct with a parameterless `#[parent]` member is assembled on a default value, statement by
    statement: a flattened member, or a ghost entry that opens a nested struct of its own, has no struct expression to be
    written in (fix 8ccd1e1) -/
def childBareParentPass (input : Struct) (es : Errors) (x : TraitAttrCore × Kind) : Errors :=
  let ty := x.1.ty
  if !x.2.isFrom && !x.2.isIntoExisting && x.1.quickReturn.isNone && x.1.typeHint != .unit &&
      input.fields.any (·.attrs.hasParameterlessParentAttr ty) then
    let es := (input.fields.filter fun f => (f.attrs.child ty).isSome && (f.attrs.ghost ty x.2).isNone && !f.attrs.hasParentAttr ty).foldl
      (fun es f => es.insert ("Member " ++ f.memberStr ++ ": #[child(...)] cannot be used next to a parameterless #[parent] member in 'into' conversions to " ++
        ty.pathStr ++ ": the nested struct cannot be built on a default value")) es
    -- a nested struct that only ghosts are addressed to is opened for them (unless a member goes by the same name)
    let paths := (((input.attrs.ghostsAttr ty x.2).toList.flatMap (·.ghostData)).filter (·.childPath.isSome)).map
      fun g => match g.childPath with | some c => c.strs.getLast?.getD "" | none => ""
    (paths.filter fun path => !input.fields.any fun f => (f.attrs.child ty).isNone && f.memberStr == path).foldl
      (fun es path => es.insert ("#[ghosts(" ++ path ++ "@...)] cannot be used next to a parameterless #[parent] member in 'into' conversions to " ++
        ty.pathStr ++ ": the nested struct cannot be built on a default value")) es
  else es

/-- the per-field check shared by `validate_fields` (tuple struct + `as {}`) and `validate_variant_fields` -/
def memberNameCheck (field : Field) (ty : TypePath) (k : Kind) (fallible : Bool) (noAttrMsg : String) (errors : Errors) : Errors :=
  if (field.attrs.ghost ty k).isSome || field.attrs.hasParentAttr ty then errors else
  match field.attrs.applicableFieldAttr k fallible ty with
  | some fa =>
    if k.isFrom then
      if fa.attr.member.isNone && fa.attr.action.isNone then
        errors.insert ("Member trait instruction #[" ++ fa.originalInstr ++ "(...)] for member " ++ field.member.str ++
          " should specify corresponding field name of the " ++ display ty.path ++ " or an action")
      else errors
    else if fa.attr.member.isNone then
      errors.insert ("Member trait instruction #[" ++ fa.originalInstr ++ "(...)] for member " ++ field.member.str ++
        " should specify corresponding field name of the " ++ ty.pathStr)
    else errors
  | none => errors.insert noAttrMsg

/-- first loop of `validate_fields`, one field: `#[ghost]` without default where a From impl needs one; permeating repeat -/
def ghostDefaultPass (fromTypePaths : List TypePath) (field : Field) (es : Errors) : Errors :=
  let ghostMsg (tp : TypePath) :=
    "Member instruction #[ghost(...)] for member '" ++ field.member.str ++ "' should provide default value for type " ++ tp.pathStr
  let es := field.attrs.ghostAttrs.foldl (fun es ga =>
    if ga.attr.action.isSome then es else
    match ga.attr.containerTy with
    | some tp => if fromTypePaths.contains tp then es.insert (ghostMsg tp) else es
    | none => fromTypePaths.foldl (fun es tp => es.insert (ghostMsg tp)) es) es
  match field.attrs.repeat_ with
  | some r => if r.permeate then es.insert "Permeating repeat instruction is only applicable to enum variant fields." else es
  | none => es

/-- second loop of `validate_fields`, one `#[child]` instruction -/
def childPass (structAttrs : DataTypeAttrs) (typePaths intoTypePaths : List TypePath) (ca : ChildAttr) (es : Errors) : Errors :=
  match ca.containerTy with
  | some tp =>
    let es := if !typePaths.contains tp then es.insert (noMatch tp) else es
    if intoTypePaths.contains tp then checkChildErrors ca structAttrs tp es else es
  | none => intoTypePaths.foldl (fun es tp => checkChildErrors ca structAttrs tp es) es

def kindOrderInto : List Kind := [.ownedInto, .refInto, .ownedIntoExisting, .refIntoExisting, .fromOwned, .fromRef]

/-- `trait_attrs_by_kind`: the trait instructions in the order of the twelve (kind, fallibility) passes -/
def traitAttrsByKind (dta : DataTypeAttrs) : List (TraitAttr × Kind) :=
  (kindOrderInto.flatMap fun k => (dta.iterForKind k false).map fun x => (x, k)) ++
  (kindOrderInto.flatMap fun k => (dta.iterForKind k true).map fun x => (x, k))

/-- does the variant have an arm of its own in this conversion? Not a ghost variant on the From side, nor one without a
    default value on the Into side (the two `continue`s of `enum_init_block_inner`) -/
def variantHasArm (v : Variant) (ty : TypePath) (k : Kind) : Bool :=
  match v.attrs.ghost ty k with
  | some g => !k.isFrom && g.action.isSome
  | none => true

/-- `variant_has_body`: is the body of the variant (its members) written out in this conversion? -/
def variantHasBody (v : Variant) (a : TraitAttr) (k : Kind) : Bool :=
  variantHasArm v a.core.ty k &&
  !(match v.attrs.applicableAttr k a.fallible a.core.ty with | some x => x.hasAction | none => false)

/-- the (trait instruction, kind) pairs in which a variant's members are written, each with the shape they are written
    in: that of the variant's own `#[type_hint(..)]` -/
def variantWrittenAs (v : Variant) (dta : DataTypeAttrs) : List (TraitAttrCore × Kind × TypeHint) :=
  ((traitAttrsByKind dta).filter fun x => variantHasBody v x.1 x.2).map fun x => (x.1.core, x.2, variantHintFor v x.1.core)

/-- has `render_enum_line` an arm for this combination of a variant-level trait instruction, `#[literal]` and `#[pattern]`? -/
def enumArmSupported (attr lit pat : Bool) (k : Kind) : Bool :=
  !k.isIntoExisting &&
  match attr, lit, pat with
  | false, false, false => true
  | true, false, false | false, true, false => true
  | false, false, true => k.isFrom
  | true, false, true => !k.isFrom
  | _, _, _ => false

def variantArmMsg (v : Variant) (a : TraitAttr) (k : Kind) : String :=
  "Variant " ++ v.ident ++ ": this combination of a variant-level trait instruction, #[literal(...)] and #[pattern(...)] is not supported for #[" ++
    fallibleKindName k a.fallible ++ "(" ++ a.core.ty.pathStr ++ "...)] trait instruction"

def variantPatMsg (v : Variant) (a : TraitAttr) (k : Kind) : String :=
  "Variant " ++ v.ident ++ ": the variant-level trait instruction of a #[pattern(...)] variant should have an expression, that is what #[" ++
    fallibleKindName k a.fallible ++ "(" ++ a.core.ty.pathStr ++ "...)] converts the variant to"

def variantExistingMsg (v : Variant) (a : TraitAttr) (k : Kind) : String :=
  "Variant " ++ v.ident ++ ": 'into_existing' conversions are not available for enums (#[" ++
    fallibleKindName k a.fallible ++ "(" ++ a.core.ty.pathStr ++ "...)] trait instruction)"

/-- one (trait instruction, kind) of `validate_variant_arm` -/
def variantArmStep (v : Variant) (es : Errors) (x : TraitAttr × Kind) : Errors :=
  let ty := x.1.core.ty
  if x.1.core.quickReturn.isSome || !variantHasArm v ty x.2 then es else
  let attr := v.attrs.applicableAttr x.2 x.1.fallible ty
  -- there is no `match` for an into_existing conversion of an enum (fix 4d98551): every variant with an arm is reported
  if x.2.isIntoExisting then es.insert (variantExistingMsg v x.1 x.2) else
  if enumArmSupported attr.isSome (v.attrs.lit ty).isSome (v.attrs.pat ty).isSome x.2 then
    -- the arm of a `#[pattern(..)]` variant on the Into side is the expression of its instruction (fix 08c970f)
    if (v.attrs.pat ty).isSome && (match attr with | some a => !a.hasAction | none => false) then es.insert (variantPatMsg v x.1 x.2)
    else es
  else es.insert (variantArmMsg v x.1 x.2)

/-- `validate_variant_arm` -/
def variantArmPass (v : Variant) (dta : DataTypeAttrs) (errors : Errors) : Errors :=
  (traitAttrsByKind dta).foldl (variantArmStep v) errors

/-- is the nested struct a `#[child]` member is written into given `as {}` in `#[child_parents]`? (fix 43d0b08) -/
def nestedStructShaped (input : Struct) (ty : TypePath) (field : Field) : Bool :=
  match field.attrs.child ty with
  | some ca =>
    match (input.attrs.childParentsAttr ty).bind (fun x => x.childParents.find? (fun cd => cd.fieldPathStr == ca.childPath.strs.getLast?.getD "")) with
    | some cd => cd.typeHint == .struct
    | none => false
  | none => false

/-- third loop of `validate_fields`, one (trait instruction, kind): tuple struct mapped `as {}` -/
def namePass (input : Struct) (dta : TraitAttrCore) (k : Kind) (fallible : Bool) (es : Errors) : Errors :=
  if dta.quickReturn.isNone then
    input.fields.foldl (fun es field =>
      if dta.typeHint != .struct && !nestedStructShaped input dta.ty field then es else
      memberNameCheck field dta.ty k fallible
        ("Member " ++ field.member.str ++ " should have member trait instruction with field name" ++
          (if k.isFrom then " or an action" else "") ++ ", that corresponds to #[" ++ fallibleKindName k false ++
          "(" ++ dta.ty.pathStr ++ "...)] trait instruction") es) es
  else es

/-- `validate_fields` -/
def validateFields (input : Struct) (byKind : List (TraitAttrCore × Kind)) (typePaths : List TypePath) (errors : Errors) : Errors :=
  let intoTypePaths := uniqueInOrder ((byKind.filter fun (_, k) => !k.isFrom && !k.isIntoExisting).map (·.1.ty))
  let fromTypePaths := uniqueInOrder ((byKind.filter fun (x, k) => x.update.isNone && k.isFrom).map (·.1.ty))
  let es := input.fields.foldl (fun es field => ghostDefaultPass fromTypePaths field es) errors
  let es := (input.fields.flatMap (·.attrs.childAttrs)).foldl (fun es ca => childPass input.attrs typePaths intoTypePaths ca es) es
  let es := byKind.foldl (ghostChildPass input.attrs) es
  let es := byKind.foldl (childBareParentPass input) es
  if !input.namedFields then
    (traitAttrsByKind input.attrs).foldl (fun es x => namePass input x.1.core x.2 x.1.fallible es) es
  else es


/-- one (trait instruction, kind) of `validate_variant_fields` -/
def variantNamePass (input : Variant) (a : TraitAttr) (k : Kind) (es : Errors) : Errors :=
  if a.core.quickReturn.isNone && ((input.attrs.typeHint a.core.ty).map (·.typeHint)).getD .unspecified == .struct then
    input.fields.foldl (fun es field =>
      memberNameCheck field a.core.ty k a.fallible
        ("Member " ++ field.member.str ++ " of a variant " ++ input.ident ++ " should have member trait instruction with field name" ++
          (if k.isFrom then " or an action" else "") ++ ", that corresponds to #[" ++ fallibleKindName k a.fallible ++
          "(" ++ a.core.ty.pathStr ++ "...)] trait instruction") es) es
  else es

/-- `validate_variant_fields` -/
def validateVariantFields (input : Variant) (dta : DataTypeAttrs) (errors : Errors) : Errors :=
  if !input.namedFields then
    (traitAttrsByKind dta).foldl (fun es x => variantNamePass input x.1 x.2 es) errors
  else errors

/-- a `#[parent(..)]` list that a From conversion has to construct needs the member's type to be a path -/
def parentNeedsType (byKind : List (TraitAttrCore × Kind)) (p : ParentAttr) : Bool :=
  p.childFields.isSome && byKind.any (fun x => x.2.isFrom && (match p.containerTy with | none => true | some t => x.1.ty == t))

def parentTypePass (f : Field) (byKind : List (TraitAttrCore × Kind)) (es : Errors) : Errors :=
  if f.ty.isNone && f.attrs.parentAttrs.any (parentNeedsType byKind) then
    es.insert ("Type of member " ++ f.member.str ++ " should be a path to a struct: #[parent(...)] constructs it in 'from' conversions.")
  else es

/-- entries of struct-level and variant-level `#[ghosts(..)]` name members: a destructuring pattern is reported -/
def ghostPatternPass (msg : String) (g : GhostData) (es : Errors) : Errors :=
  match g.ghostIdent with
  | .destruction _ => es.insert msg
  | _ => es

/-- a variant is expanded as a struct of its own, without `#[child_parents]`: a variant-level ghost cannot be addressed
    to a nested struct -/
def variantGhostChildPass (g : GhostData) (es : Errors) : Errors :=
  if g.childPath.isSome then
    es.insert "Variant-level #[ghosts(...)] cannot address a nested struct ('path@name'): #[child_parents(...)] is only available for structs."
  else es

/-- the body of the `for member in input.get_members()` loop of `validate` -/
def validateMember (input : DataType) (isEnum : Bool) (typePaths : List TypePath) (byKind : List (TraitAttrCore × Kind))
    (es : Errors) (member : DataTypeMember) : Errors :=
  let ma := member.attrs
  let es := validateDedicatedMemberAttrs (ma.attrs.map (·.attr.containerTy)) none typePaths es
  let es := validateDedicatedMemberAttrs (ma.ghostAttrs.map (·.attr.containerTy)) none typePaths es
  let es := match member with
    | .field f =>
      let es := barkAtMemberAttr ma.litAttrs.length "literal" es
      let es := barkAtMemberAttr ma.patAttrs.length "pattern" es
      let es := barkAtMemberAttr ma.typeHintAttrs.length "type_hint" es
      let es := barkAtMemberAttr (ma.ghostsAttrs.filter fun x => x.appl.get .ownedInto && x.appl.get .refInto).length "ghosts" es
      let es := barkAtMemberAttr (ma.ghostsAttrs.filter fun x => x.appl.get .ownedInto && !x.appl.get .refInto).length "ghosts_owned" es
      let es := barkAtMemberAttr (ma.ghostsAttrs.filter fun x => !x.appl.get .ownedInto && x.appl.get .refInto).length "ghosts_ref" es
      let es := validateDedicatedMemberAttrs (ma.parentAttrs.map (·.containerTy)) (some "parent") typePaths es
      let named := match input with | .struct s => s.namedFields | .enum _ => false
      let es := validateParentAttrs named (byKind.map fun x => (x.1, x.2, x.1.typeHint)) ma.parentAttrs byKind es
      parentTypePass f byKind es
    | .variant v =>
      let es := barkAtMemberAttr ma.parentAttrs.length "parent" es
      let es := (ma.ghostsAttrs.flatMap (·.attr.ghostData)).foldl (fun es g =>
        variantGhostChildPass g (ghostPatternPass "Variant-level #[ghosts(...)] should name a member of the other type's variant, not a pattern." g es)) es
      let es := validateDedicatedMemberAttrs (ma.litAttrs.map (·.containerTy)) (some "literal") typePaths es
      let es := validateDedicatedMemberAttrs (ma.patAttrs.map (·.containerTy)) (some "pattern") typePaths es
      let es := validateDedicatedMemberAttrs (ma.typeHintAttrs.map (·.containerTy)) (some "type_hint") typePaths es
      -- the payload fields of the variant
      v.fields.foldl (fun es f =>
        let es := barkAtMemberAttr f.attrs.childAttrs.length "child" es
        let es := validateParentAttrs v.namedFields (variantWrittenAs v input.attrs) f.attrs.parentAttrs byKind es
        let es := parentTypePass f byKind es
        let es := validateDedicatedMemberAttrs (f.attrs.attrs.map (·.attr.containerTy)) none typePaths es
        let es := validateDedicatedMemberAttrs (f.attrs.ghostAttrs.map (·.attr.containerTy)) none typePaths es
        validateMemberErrorInstrs isEnum f.attrs.errorInstrs es) es
  validateMemberErrorInstrs isEnum ma.errorInstrs es

def validateKinds : List Kind := [.fromOwned, .fromRef, .ownedInto, .refInto, .ownedIntoExisting, .refIntoExisting]

/-- `data_type_attrs_by_kind` -/
def attrsByKind (attrs : DataTypeAttrs) : List (TraitAttrCore × Kind) :=
  (kindOrderInto.flatMap fun k => (attrs.iterForKindCore k false).map fun x => (x, k)) ++
  (kindOrderInto.flatMap fun k => (attrs.iterForKindCore k true).map fun x => (x, k))

/-- an entry of an enum-level `#[ghosts(..)]` names a variant of the other type: an index is reported -/
def enumGhostIdentPass (g : GhostData) (es : Errors) : Errors :=
  match g.ghostIdent with
  | .member (.unnamed _) => es.insert "Enum-level #[ghosts(...)] should name a variant of the other type, not an index."
  | _ => es

/-- struct update syntax (`..expr`) has a meaning only where a struct expression is built: not in into_existing, and not
    in an Into body that is assembled on a default value (a parameterless `#[parent]` member) -/
def updatePass (input : DataType) (es : Errors) (x : TraitAttrCore × Kind) : Errors :=
  if x.1.update.isSome && !x.2.isFrom then
    if x.2.isIntoExisting then
      es.insert "Struct update syntax '..' is not applicable to 'into_existing' instructions: there is no struct expression to complete."
    else if input.members.any (fun m => m.attrs.hasParameterlessParentAttr x.1.ty) then
      es.insert ("Struct update syntax '..' is not applicable next to a parameterless #[parent] member: " ++ x.1.ty.pathStr ++ " is built from its default value.")
    else es
  else es

def DataType.isEnum : DataType → Bool
  | .enum _ => true
  | .struct _ => false

/-- the closing `match input { .. }` of `validate`: member names of type-level ghosts, then the per-shape member checks -/
def validateEnd (input : DataType) (byKind : List (TraitAttrCore × Kind)) (typePaths : List TypePath) (es : Errors) : Errors :=
  match input with
  | .struct s =>
    let es := (input.attrs.ghostsAttrs.flatMap (·.attr.ghostData)).foldl (fun es g => ghostPatternPass "Struct-level #[ghosts(...)] should name a member of the other type, not a pattern." g es) es
    validateFields s byKind typePaths es
  | .enum e =>
    let es := (input.attrs.ghostsAttrs.flatMap (·.attr.ghostData)).foldl (fun es g => enumGhostIdentPass g es) es
    e.variants.foldl (fun es v => validateVariantFields v input.attrs es) es

/-- `validate`: the diagnostics in report order (empty = accepted) -/
def validate (input : DataType) : Errors :=
  let attrs := input.attrs
  let isEnum := input.isEnum
  let es : Errors := if attrs.attrs.isEmpty then ["At least one trait instruction is expected."] else []
  let es := validateErrorInstrs isEnum attrs.errorInstrs es
  let es := validateKinds.foldl (fun es k => validateStructAttrs (attrs.iterForKindCore k false) false es) es
  let es := validateKinds.foldl (fun es k => validateStructAttrs (attrs.iterForKindCore k true) true es) es
  let typePaths := attrs.attrs.map (·.core.ty)
  let es := validateKinds.foldl (fun es k => validateGhostAttrs k attrs.ghostsAttrs typePaths es) es
  let es := validateChildParentsAttrs attrs.childParentsAttrs typePaths es
  let es := validateWhereAttrs attrs.whereAttrs typePaths es
  let byKind := attrsByKind attrs
  let es := byKind.foldl (updatePass input) es
  let es := input.members.foldl (validateMember input isEnum typePaths byKind) es
  validateEnd input byKind typePaths es

/-- `validate` as a whole: the rules above, and — for an input that is otherwise in order — the last check, which concerns
    what the expander can write at all (`validate_variant_arm`, the former `todo!()` of `render_enum_line`) -/
def validateAll (input : DataType) : Errors :=
  match validate input, input with
  | [], .enum e => e.variants.foldl (fun es v => variantArmPass v e.attrs es) []
  | es, _ => es

/-- every diagnostic of the rules is a diagnostic of the whole -/
theorem validateAll_of_mem (input : DataType) (m : String) (h : m ∈ validate input) : m ∈ validateAll input := by
  unfold validateAll
  split
  · simp_all
  · exact h

/-- an input the whole accepts is accepted by the rules -/
theorem validate_of_validateAll_nil (input : DataType) (h : validateAll input = []) : validate input = [] := by
  unfold validateAll at h
  split at h
  · assumption
  · exact h

end O2o
