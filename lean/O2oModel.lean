import O2oModel.Tok
import O2oModel.GenTypes
import O2oModel.Syn
import O2oModel.Generated
import O2oModel.Attr
import O2oModel.Ast
import O2oModel.Validate
import O2oModel.Expand
